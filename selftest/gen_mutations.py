#!/usr/bin/env python3
"""(Re)generate the selftest mutation patches from textual edits against /repo HEAD.
Each mutation compiles and keeps the baseline suite green (verified when added); `expect` is a
substring of the violation key the check must report."""
import json, os, subprocess, tempfile, shutil, difflib
HERE = os.path.dirname(os.path.abspath(__file__))
OUT = os.path.join(HERE, "mutations")
M = [
 # --- C01
 dict(name="divrem_bits_vartime", prop="C01", file="src/uint/div.rs",
      old="        let dbits = rhs.0.bits();", new="        let dbits = rhs.0.bits_vartime();",
      expect="c01.leak|uint::div::<impl uint::Uint<_>>::div_rem|vtcall"),
 dict(name="add_mod_branch", prop="C01", file="src/uint/add_mod.rs",
      old="        w.wrapping_add(&p.bitand_limb(mask))", new="        if mask.0 != 0 { w.wrapping_add(p) } else { w }",
      expect="c01.leak|uint::add_mod::<impl uint::Uint<_>>::add_mod|branch"),
 dict(name="inv_mod2k_early_exit", prop="C01", file="src/uint/inv_mod.rs",
      old="        while i < Self::BITS {\n            // Only iterations for i = 0..k need to change `x`,",
      new="        while i < Self::BITS && i < k {\n            // Only iterations for i = 0..k need to change `x`,",
      expect="c01.leak|uint::inv_mod::<impl uint::Uint<_>>::inv_mod2k|branch"),
 dict(name="pow_table_index", prop="C01", file="src/modular/pow.rs",
      old="""                let mut power = powers[0];
                let mut j = 1;
                while j < 1 << WINDOW {
                    let choice = ConstChoice::from_word_eq(j, idx);
                    power = Uint::<LIMBS>::select(&power, &powers[j as usize], choice);
                    j += 1;
                }
""", new="                let power = powers[idx as usize];\n",
      expect="c01.leak|modular::pow::multi_exponentiate_montgomery_form_internal|index"),
 # --- C06
 dict(name="monty_params_select_drop_one", prop="C06", file="src/modular/monty_form.rs",
      old="            one: Uint::conditional_select(&a.one, &b.one, choice),", new="            one: a.one,",
      expect="c06.select|<modular::monty_form::MontyParams<_> as subtle::ConditionallySelectable>::conditional_select"),
 dict(name="int_select_swapped", prop="C06", file="src/int/cmp.rs",
      old="        Self(Uint::select(&a.0, &b.0, c))", new="        Self(Uint::select(&b.0, &a.0, c))",
      expect="c06.select|int::cmp::<impl int::Int<_>>::select"),
 # --- C08 / C09
 dict(name="boxed_pow_one_subtraction", prop="C09", file="src/modular/boxed_monty_form/pow.rs",
      old="    z.conditional_sbb_assign(modulus, !z.ct_lt(modulus));\n    z.conditional_sbb_assign(modulus, !z.ct_lt(modulus));\n",
      new="    z.conditional_sbb_assign(modulus, !z.ct_lt(modulus));\n",
      expect="c08.level|modular::boxed_monty_form::pow::pow_montgomery_form"),
 dict(name="boxed_mul_amm", prop="C08", file="src/modular/boxed_monty_form/mul.rs",
      old="            .mul(&self.montgomery_form, &rhs.montgomery_form);", new="            .mul_amm(&self.montgomery_form, &rhs.montgomery_form);",
      expect="c08.write|modular::boxed_monty_form::mul::<impl modular::boxed_monty_form::BoxedMontyForm>::mul"),
 dict(name="const_params_r2_r3_swapped", prop="C08", file="src/modular/monty_form.rs",
      old="            r2: P::R2,\n            r3: P::R3,\n            mod_neg_inv: P::MOD_NEG_INV,",
      new="            r2: P::R3,\n            r3: P::R2,\n            mod_neg_inv: P::MOD_NEG_INV,",
      expect="c08.constparams|modular::monty_form::MontyParams<_>::from_const_params|r2"),
 # --- C11
 dict(name="inv_mod_expect", prop="C11", file="src/uint/inv_mod.rs",
      old="        let m_odd_inv = s.inv_mod2k(k).unwrap_or(Uint::ZERO);", new="        let m_odd_inv = s.inv_mod2k(k).expect(\"inverse mod 2^k exists\");",
      expect="c11.panic|uint::inv_mod::<impl uint::Uint<_>>::inv_mod|panic:ConstCtOption:expect"),
 dict(name="from_vec_no_empty_guard", prop="C11", file="src/uint/boxed/from.rs",
      old="        if limbs.is_empty() {\n            limbs.push(Limb::ZERO);\n        }\n", new="",
      expect="c11.boxed|uint::boxed::from::<impl core::convert::From<alloc::vec::Vec<limb::Limb>> for uint::boxed::BoxedUint>::from"),
 dict(name="rlp_saturating_sub", prop="C11", file="src/uint/encoding/rlp.rs",
      old="                    .checked_sub(bytes.len())\n                    .ok_or(DecoderError::RlpIsTooBig)?;", new="                    .saturating_sub(bytes.len());",
      expect="capguard|uint::encoding::rlp"),
 # --- C12
 dict(name="nonzero_derive_default", prop="C12", file="src/non_zero.rs",
      old="impl<T> Default for NonZero<T>\nwhere\n    T: Constants,\n{\n    fn default() -> Self {\n        Self(T::ONE)\n    }\n}",
      new="impl<T> Default for NonZero<T>\nwhere\n    T: Constants + Default,\n{\n    fn default() -> Self {\n        Self(T::default())\n    }\n}",
      expect="c12.create|<non_zero::NonZero<_> as core::default::Default>::default"),
 dict(name="odd_from_le_hex_be", prop="C12", file="src/odd.rs",
      old="        let uint = Uint::<LIMBS>::from_le_hex(hex);", new="        let uint = Uint::<LIMBS>::from_be_hex(hex);",
      expect="byteorder|odd::Odd::<uint::Uint<_>>::from_le_hex"),
 dict(name="odd_field_pub", prop="C12", file="src/odd.rs",
      old="pub struct Odd<T>(pub(crate) T);", new="pub struct Odd<T>(pub T);",
      expect="c12.field|odd::Odd|0"),
 dict(name="nonzero_new_unwrap_unchecked", prop="C12", file="src/non_zero.rs",
      old="impl<T> NonZero<T> {\n", new="impl<T> NonZero<T> {\n    /// Create a non-zero integer from a value the caller knows to be non-zero.\n    pub fn from_inner(n: T) -> Self {\n        Self(n)\n    }\n\n",
      expect="c12.create|non_zero::NonZero<_>::from_inner"),
 # --- C15
 dict(name="wrapping_sub_swapped", prop="C15", file="src/uint/sub.rs",
      old="    fn wrapping_sub(&self, v: &Self) -> Self {\n        self.wrapping_sub(v)", new="    fn wrapping_sub(&self, v: &Self) -> Self {\n        v.wrapping_sub(self)",
      expect="c15.forward|uint::sub::<impl num_traits::WrappingSub for uint::Uint<_>>::wrapping_sub"),
 dict(name="checked_sub_closure_swapped", prop="C15", file="src/checked.rs",
      old="lhs.checked_sub(&rhs)", new="rhs.checked_sub(&lhs)", count=1,
      expect="c15.deep|<checked::Checked<_> as core::ops::Sub>::sub"),
 # --- C16
 dict(name="hex_err_dropped", prop="C16", file="src/uint/encoding.rs",
      old="                err |= byte_err;", new="                let _ = byte_err;", count=1,
      expect="c16.errword|uint::encoding::<impl uint::Uint<_>>::from_be_hex|decode_hex_byte"),
 dict(name="boxed_slice_no_size_check", prop="C16", file="src/uint/boxed/encoding.rs",
      old="        if bytes.len() > (bits_precision as usize).div_ceil(8) {\n            return Err(DecodeError::InputSize);\n        }\n\n        let mut ret = Self::zero_with_precision(bits_precision);\n\n        for (chunk, limb) in bytes.rchunks",
      new="        let mut ret = Self::zero_with_precision(bits_precision);\n\n        for (chunk, limb) in bytes.rchunks",
      expect="c16.precguard|uint::boxed::encoding::<impl uint::boxed::BoxedUint>::from_be_slice"),
 # --- rules added after seeded misses
 dict(name="boxed_ct_eq_zip", prop="C06", file="src/uint/boxed/cmp.rs",
      old=open('/verif/seeded/C06/patch.diff').read() and "__FROM_PATCH__", new="", expect="c06.zip|uint::boxed::cmp", patch="/verif/seeded/C06/patch.diff"),
 dict(name="lincomb_carry_dropped", prop="C09", file="src/modular/lincomb.rs",
      old="            let carry = ret.adc_assign(&buf, Limb::ZERO);", new="            ret.adc_assign(&buf, Limb::ZERO);",
      expect="carry|modular::lincomb::lincomb_boxed_monty_form|adc_assign"),
 dict(name="int_wrapping_shr_route", prop="C15", file="src/int/shr.rs",
      old="__FROM_PATCH__", new="", expect="c15.forward|int::shr::<impl num_traits::WrappingShr for int::Int<_>>::wrapping_shr", patch="/verif/seeded/C15b/patch.diff"),
 dict(name="der_drop_first_octet", prop="C18", file="src/uint/encoding/der.rs",
      old="__FROM_PATCH__", new="", expect="capguard.truncate|uint::encoding::der", patch="/verif/seeded/C18b/patch.diff"),
 # --- C04 (carry discipline outside src/modular); rule positive controls
 dict(name="add_mod_carry_rebound", prop="C04", file="src/uint/add_mod.rs",
      old="        let (w, carry) = self.adc(rhs, Limb::ZERO);", new="        let (w, _carry) = self.adc(rhs, Limb::ZERO);\n        let carry = Limb::ZERO;",
      expect="carry|uint::add_mod::<impl uint::Uint<_>>::add_mod|adc"),
 dict(name="uint_adc_chain_broken", prop="C04", file="src/uint/add.rs",
      old="            let (w, c) = self.limbs[i].adc(rhs.limbs[i], carry);", new="            let (w, c) = self.limbs[i].adc(rhs.limbs[i], Limb::ZERO);",
      expect="carry.final|uint::add::<impl uint::Uint<_>>::adc|adc"),
 dict(name="boxed_adc_assign_carry_not_chained", prop="C04", file="src/uint/boxed/add.rs",
      old="            self.limbs[i] = limb;\n            carry = b;", new="            self.limbs[i] = limb;",
      expect="carry|uint::boxed::add::<impl uint::boxed::BoxedUint>::adc_assign|adc"),
 dict(name="boxed_monty_double_shl1_carry", prop="C08", file="src/modular/boxed_monty_form/add.rs",
      old="__FROM_PATCH__", new="", expect="carry|modular::boxed_monty_form::add::<impl modular::boxed_monty_form::BoxedMontyForm>::double|shl1_assign", patch="/verif/seeded/C08d/patch.diff"),
 dict(name="from_le_slice_rounded_precision", prop="C16", file="src/uint/boxed/encoding.rs",
      old="__FROM_PATCH__", new="", expect="c16.precguard|uint::boxed::encoding::<impl uint::boxed::BoxedUint>::from_le_slice", patch="/verif/seeded/C16c/patch.diff"),
 dict(name="int_gcd_vartime_raw_bits", prop="C15", file="src/int/gcd.rs",
      old="__FROM_PATCH__", new="", expect="c15.sibling|int::gcd::<impl traits::Gcd for int::Int<_>>::gcd_vartime", patch="/verif/seeded/C15c/patch.diff"),
 # --- C10 / C13 (gate dependence)
 dict(name="inv_mod2k_vartime_gate_ignores_k", prop="C10", file="src/uint/inv_mod.rs",
      old="        let is_some = ConstChoice::from_u32_nonzero(k).not().or(self.is_odd());\n\n        // Bits at positions `>= Self::BITS` do not exist in the result: for `k > Self::BITS`\n        // the inverse mod `2^k` truncated to this width is the inverse mod `2^Self::BITS`.\n        while i < k && i < Self::BITS {\n            // X_i = b_i mod 2\n            let x_i = b.limbs[0].0 & 1;\n            let x_i_choice = ConstChoice::from_word_lsb(x_i);\n            // b_{i+1} = (b_i - a * X_i) / 2\n            b = Self::select(&b, &b.wrapping_sub(self), x_i_choice).shr1();",
      new="        let is_some = ConstChoice::from_u32_nonzero(k).not().or(ConstChoice::TRUE);\n\n        // Bits at positions `>= Self::BITS` do not exist in the result: for `k > Self::BITS`\n        // the inverse mod `2^k` truncated to this width is the inverse mod `2^Self::BITS`.\n        while i < k && i < Self::BITS {\n            // X_i = b_i mod 2\n            let x_i = b.limbs[0].0 & 1;\n            let x_i_choice = ConstChoice::from_word_lsb(x_i);\n            // b_{i+1} = (b_i - a * X_i) / 2\n            b = Self::select(&b, &b.wrapping_sub(self), x_i_choice).shr1();",
      expect="c10.gate|uint::inv_mod::<impl uint::Uint<_>>::inv_mod2k_vartime"),
 dict(name="safegcd_inv_gate_constant", prop="C10", file="src/modular/safegcd.rs",
      old="        let is_some = f.eq(&UnsatInt::ONE).or(antiunit);\n        ConstCtOption::new(ret.to_uint(), is_some)\n    }\n\n    /// Returns either the adjusted modular multiplicative inverse for the argument or `None`\n    /// depending on invertibility of the argument, i.e. its coprimality with the modulus.\n    ///\n    /// This version is variable-time",
      new="        let is_some = ConstChoice::TRUE;\n        let _ = f;\n        ConstCtOption::new(ret.to_uint(), is_some)\n    }\n\n    /// Returns either the adjusted modular multiplicative inverse for the argument or `None`\n    /// depending on invertibility of the argument, i.e. its coprimality with the modulus.\n    ///\n    /// This version is variable-time",
      expect="c10.gate|modular::safegcd::SafeGcdInverter<_>::inv"),
 dict(name="int_checked_neg_always_some", prop="C13", file="src/int/neg.rs",
      old="        let (value, overflow) = self.overflowing_neg();\n        ConstCtOption::new(value, overflow.not())",
      new="        let (value, _overflow) = self.overflowing_neg();\n        ConstCtOption::some(value)",
      expect="|int::neg::<impl int::Int<_>>::checked_neg"),
 dict(name="int_add_assign_wrapping", prop="C15", file="src/int/add.rs",
      old="__FROM_PATCH__", new="", expect="c15.mode|int::add::<impl core::ops::AddAssign<&int::Int<_>> for int::Int<_>>::add_assign", patch="/verif/seeded/C04c/patch.diff"),
 dict(name="int_add_assign_wrapping_c04", prop="C04", file="src/int/add.rs",
      old="__FROM_PATCH__", new="", expect="c04.mode|int::add::<impl core::ops::AddAssign<&int::Int<_>> for int::Int<_>>::add_assign", patch="/verif/seeded/C04c/patch.diff"),
 dict(name="boxed_random_bits_rounded_guard", prop="C19", file="src/uint/boxed/rand.rs",
      old="__FROM_PATCH__", new="", expect="c19.bitguard|uint::boxed::rand", patch="/verif/seeded/C19b/patch.diff"),
 dict(name="boxed_inv_mod_wrong_flag_dropped", prop="C10", file="src/uint/boxed/inv_mod.rs",
      old="__FROM_PATCH__", new="", expect="c10.flag|uint::boxed::inv_mod::<impl uint::boxed::BoxedUint>::inv_mod|inv_mod2k|recv=_1", patch="/verif/seeded/C10b/patch.diff"),
 dict(name="boxed_widen_subslice", prop="C12", file="src/uint/boxed.rs",
      old="__FROM_PATCH__", new="", expect="c12.vpfn|uint::boxed::BoxedUint::widen", patch="/verif/seeded/C12e/patch.diff"),
 dict(name="sqrt_select_guard_swapped", prop="C12", file="src/uint/sqrt.rs",
      old="            let (q, _) = self.div_rem(&NonZero(Self::select(&Self::ONE, &x, x_nonzero)));",
      new="            let (q, _) = self.div_rem(&NonZero(Self::select(&x, &Self::ONE, x_nonzero)));",
      expect="c12.create|uint::sqrt::<impl uint::Uint<_>>::sqrt|non_zero::NonZero"),
 dict(name="odd_random_wrong_limb", prop="C12", file="src/odd.rs",
      old="        ret.limbs[0] |= Limb::ONE;\n        Ok(Odd(ret))",
      new="        ret.limbs[1] |= Limb::ONE;\n        Ok(Odd(ret))",
      expect="c12.create|<odd::Odd<uint::Uint<_>> as traits::Random>::try_random|odd::Odd"),
 dict(name="int_checked_div_no_fit_test", prop="C13", file="src/int/div.rs",
      old="        NonZero::new(*rhs).and_then(|rhs| self.checked_div_rem(&rhs).0.into())\n    }\n\n    /// Computes `self` % `rhs`, returns the remainder.",
      new="        NonZero::new(*rhs).map(|rhs| self.checked_div_rem(&rhs).0.unwrap_or(Self::MIN))\n    }\n\n    /// Computes `self` % `rhs`, returns the remainder.",
      expect="c13.gate|int::div::<impl int::Int<_>>::checked_div"),
 # --- C02 / C03 / C05 / C14 (family-scoped clauses)
 dict(name="uint_wrapping_div_ignores_divisor", prop="C02", file="src/uint/div.rs",
      old="    pub const fn wrapping_div(&self, rhs: &NonZero<Self>) -> Self {\n        self.div_rem(rhs).0",
      new="    pub const fn wrapping_div(&self, rhs: &NonZero<Self>) -> Self {\n        let _ = rhs;\n        self.div_rem(&NonZero::<Self>::ONE).0",
      expect="c02.complete|uint::div::<impl uint::Uint<_>>::wrapping_div"),
 dict(name="uint_checked_rem_always_some", prop="C02", file="src/uint/div.rs",
      old="        NonZero::new(*rhs).map(|rhs| self.rem(&rhs))",
      new="        CtOption::new(self.rem(&NonZero::new(*rhs).unwrap_or(NonZero::<Self>::ONE)), subtle::Choice::from(1u8))",
      expect="c02.gate|uint::div::<impl uint::Uint<_>>::checked_rem"),
 dict(name="uint_checked_mul_ignores_hi", prop="C03", file="src/uint/mul.rs",
      old="        let (lo, hi) = self.split_mul(rhs);\n        CtOption::new(lo, hi.is_zero())",
      new="        let (lo, _hi) = self.split_mul(rhs);\n        CtOption::new(lo, subtle::Choice::from(1u8))",
      expect="c03.gate|uint::mul::<impl traits::CheckedMul<uint::Uint<_>> for uint::Uint<_>>::checked_mul"),
 dict(name="uint_overflowing_shl_flag_constant", prop="C05", file="src/uint/shl.rs",
      old="        let overflow = ConstChoice::from_u32_lt(shift, Self::BITS).not();\n        let shift = shift % Self::BITS;\n        let mut result = *self;\n        let mut i = 0;\n        while i < shift_bits {",
      new="        let overflow = ConstChoice::FALSE;\n        let shift = shift % Self::BITS;\n        let mut result = *self;\n        let mut i = 0;\n        while i < shift_bits {",
      expect="c05.gate|uint::shl::<impl uint::Uint<_>>::overflowing_shl"),
 dict(name="int_checked_div_floor_no_fit_test", prop="C14", file="src/int/div.rs",
      old="        NonZero::new(*rhs).and_then(|rhs| self.checked_div_rem_floor(&rhs).0.into())",
      new="        NonZero::new(*rhs).map(|rhs| self.checked_div_rem_floor(&rhs).0.unwrap_or(Self::MIN))",
      expect="c14.gate|int::div::<impl int::Int<_>>::checked_div_floor"),
 dict(name="boxed_mul_by_value_widening", prop="C15", file="src/uint/boxed/mul.rs",
      old="    fn mul(self, rhs: BoxedUint) -> Self {\n        Mul::mul(&self, &rhs)", new="    fn mul(self, rhs: BoxedUint) -> Self {\n        BoxedUint::mul(&self, &rhs)",
      expect="c15.forest|Mul|uint::boxed::BoxedUint|uint::boxed::BoxedUint"),
 dict(name="uint_from_le_slice_no_length_assert", prop="C16", file="src/uint/encoding.rs",
      old="    pub const fn from_le_slice(bytes: &[u8]) -> Self {\n        assert!(\n            bytes.len() == Limb::BYTES * LIMBS,\n            \"bytes are not the expected size\"\n        );\n",
      new="    pub const fn from_le_slice(bytes: &[u8]) -> Self {\n",
      expect="c16.twins|uint::encoding::<impl uint::Uint<_>>::from_be_slice"),
 dict(name="boxed_adc_assign_debug_only_width_check", prop="C04", file="src/uint/boxed/add.rs",
      old="        assert!(\n            self.bits_precision() >= (rhs.as_ref().len() as u32 * Limb::BITS),\n            \"`rhs` has a larger precision than `self`\"\n        );",
      new="        debug_assert!(self.bits_precision() >= (rhs.as_ref().len() as u32 * Limb::BITS));",
      expect="c04.docpanic|uint::boxed::add::<impl uint::boxed::BoxedUint>::adc_assign"),
 dict(name="boxed_cmp_vartime_debug_only_width", prop="C06", file="src/uint/boxed/cmp.rs",
      old="        let mut i = max(self.limbs.len(), rhs.limbs.len()) - 1;\n        loop {\n            // TODO: investigate if directly comparing limbs is faster than performing a\n            // subtraction between limbs\n            let a = self.limbs.get(i).unwrap_or(&Limb::ZERO);\n            let b = rhs.limbs.get(i).unwrap_or(&Limb::ZERO);\n            let (val, borrow) = a.sbb(*b, Limb::ZERO);",
      new="        debug_assert_eq!(self.limbs.len(), rhs.limbs.len());\n        let mut i = self.limbs.len() - 1;\n        loop {\n            let (val, borrow) = self.limbs[i].sbb(rhs.limbs[i], Limb::ZERO);",
      expect="c06.dbgwidth|uint::boxed::cmp::<impl uint::boxed::BoxedUint>::cmp_vartime"),
 dict(name="wide_shl_cross_term_expect", prop="C11", file="src/uint/shl.rs",
      old="                .overflowing_shr_vartime(Self::BITS - shift)\n                .unwrap_or(Self::ZERO);",
      new="                .overflowing_shr_vartime(Self::BITS - shift)\n                .expect(\"shift within range\");",
      expect="c11.panic|uint::shl::<impl uint::Uint<_>>::overflowing_shl_vartime_wide|panic:ConstCtOption:expect"),
 dict(name="adc_mul_limbs_wide_carry_wrapping_add", prop="C03", file="src/uint/mul/karatsuba.rs",
      old="        (out[i + j], carry) = out[i + j].adc(carry2, carry);\n        i += 1;\n    }\n\n    carry\n}",
      new="        carry = carry.wrapping_add(carry2);\n        (out[i + j], carry) = out[i + j].adc(Limb::ZERO, carry);\n        i += 1;\n    }\n\n    carry\n}",
      expect="carry.widesum|uint::mul::karatsuba::adc_mul_limbs|mac"),
 dict(name="monty_params_one_unreduced", prop="C08", file="src/modular/monty_form.rs",
      old="            .rem_vartime(modulus.as_nz_ref())\n            .wrapping_add(&Uint::ONE)\n            .rem_vartime(modulus.as_nz_ref());",
      new="            .rem_vartime(modulus.as_nz_ref())\n            .wrapping_add(&Uint::ONE);",
      expect="c08.param|modular::monty_form::MontyParams<_>::new_vartime|one"),
 # --- C19
 dict(name="random_mod_core_polarity", prop="C19", file="src/uint/rand.rs",
      old="        if n.ct_lt(modulus).into() {\n            break;", new="        if !bool::from(n.ct_lt(modulus)) {\n            break;",
      expect="c19.reject|uint::rand::random_mod_core"),
 dict(name="limb_random_mod_swapped", prop="C19", file="src/limb/rand.rs",
      old="            if n.ct_lt(modulus).into() {", new="            if modulus.ct_lt(&n).into() {",
      expect="c19.reject|limb::rand::<impl traits::RandomMod for limb::Limb>::try_random_mod"),
 dict(name="boxed_random_bits_no_length_check", prop="C19", file="src/uint/boxed/rand.rs",
      old="        if bit_length > bits_precision {\n            return Err(RandomBitsError::BitLengthTooLarge {\n                bit_length,\n                bits_precision,\n            });\n        }\n\n", new="",
      expect="c19.bitguard|uint::boxed::rand::<impl traits::RandomBits for uint::boxed::BoxedUint>::try_random_bits_with_precision"),
 # --- C18
 dict(name="der_saturating_sub", prop="C18", file="src/uint/encoding/der.rs",
      old="        let offset = array\n            .len()\n            .checked_sub(bytes.len().try_into()?)\n            .ok_or(Tag::Integer.length_error())?;\n",
      new="        let offset = array.len().saturating_sub(bytes.len().try_into()?);\n",
      expect="capguard|uint::encoding::der"),
 # --- c13.signext / c16.signext / c06.subcmp (rules added after seed rounds C13a/C13b/C16e, C06d/C06e)
 dict(name="from_i128_zero_extended", prop="C13", file="src/int/from.rs",
      old="        Uint::<{ I128::LIMBS }>::from_u128(n as u128)\n            .as_int()\n            .resize()",
      new="        Uint::<{ I128::LIMBS }>::from_u128(n as u128)\n            .resize()\n            .as_int()",
      expect="c13.signext|int::from::<impl int::Int<_>>::from_i128|resize"),
 dict(name="from_i128_generic_constructor", prop="C16", file="src/int/from.rs",
      old="        Uint::<{ I128::LIMBS }>::from_u128(n as u128)\n            .as_int()\n            .resize()",
      new="        Uint::from_u128(n as u128).as_int()",
      expect="c16.signext|int::from::<impl int::Int<_>>::from_i128|from_u128"),
 dict(name="int_lt_by_wrapped_difference", prop="C06", file="src/int/cmp.rs",
      old="        Uint::lt(&lhs.invert_msb().0, &rhs.invert_msb().0)",
      new="        Self(lhs.0.wrapping_sub(&rhs.0)).is_negative()",
      expect="c06.subcmp|int::cmp::<impl int::Int<_>>::lt"),
 # --- c15.zip (reverse of repo fix 6f27caf)
 dict(name="boxed_bitor_assign_zip", prop="C15", file="src/uint/boxed/bit_or.rs",
      old="    #[allow(clippy::assign_op_pattern)]\n    fn bitor_assign(&mut self, other: &Self) {\n        *self = BoxedUint::bitor(self, other);\n    }",
      new="    fn bitor_assign(&mut self, other: &Self) {\n        for (a, b) in self.limbs.iter_mut().zip(other.limbs.iter()) {\n            *a |= *b;\n        }\n    }",
      expect="c15.zip|uint::boxed::bit_or::<impl core::ops::BitOrAssign<&uint::boxed::BoxedUint> for uint::boxed::BoxedUint>::bitor_assign"),
 # --- reverse mutations of the repo fixes d500ebb, 5f1e674, 8971c4e, 1b4567e, 675ce84, 406784b
 dict(name="mul_mod_special_narrow_add", prop="C07", file="src/uint/mul_mod.rs",
      old="let rhs = (carry.0 as WideWord + 1) * c.0 as WideWord;", new="let rhs = (carry.0 + 1) as WideWord * c.0 as WideWord;",
      expect="c07.widenlate|uint::mul_mod::<impl uint::Uint<_>>::mul_mod_special|Add"),
 dict(name="boxed_mul_mod_special_narrow_add", prop="C11", file="src/uint/boxed/mul_mod.rs",
      old="let rhs = (carry.0 as WideWord + 1) * c.0 as WideWord;", new="let rhs = (carry.0 + 1) as WideWord * c.0 as WideWord;",
      expect="c11.widenlate|uint::boxed::mul_mod::<impl uint::boxed::BoxedUint>::mul_mod_special|Add"),
 dict(name="boxed_ct_select_debug_only", prop="C06", file="src/uint/boxed/ct.rs",
      old="        assert_eq!(a.bits_precision(), b.bits_precision());\n        let mut limbs",
      new="        debug_assert_eq!(a.bits_precision(), b.bits_precision());\n        let mut limbs",
      expect="c06.dbgwidth|uint::boxed::ct::<impl traits::ConstantTimeSelect for uint::boxed::BoxedUint>::ct_select"),
 dict(name="boxed_neg_mod_debug_only", prop="C07", file="src/uint/boxed/neg_mod.rs",
      old="        assert_eq!(self.bits_precision(), p.bits_precision());", new="        debug_assert_eq!(self.bits_precision(), p.bits_precision());",
      expect="c07.dbgwidth|uint::boxed::neg_mod::<impl uint::boxed::BoxedUint>::neg_mod"),
 dict(name="boxed_inv_mod_debug_only", prop="C10", file="src/uint/boxed/inv_mod.rs",
      old="        assert_eq!(self.bits_precision(), modulus.bits_precision());", new="        debug_assert_eq!(self.bits_precision(), modulus.bits_precision());",
      expect="c10.dbgwidth|uint::boxed::inv_mod::<impl uint::boxed::BoxedUint>::inv_mod"),
 dict(name="int_from_i128_no_assert", prop="C13", file="src/int/from.rs",
      old="        assert!(\n            LIMBS >= 16 / Limb::BYTES,\n            \"number of limbs must be enough to hold 128 bits\"\n        );\n", new="",
      expect="c13.dbgsize|int::from::<impl core::convert::From<i128> for int::Int<_>>::from"),
 dict(name="serde_decoded_length_dropped", prop="C16", file="src/uint.rs",
      old="        let expected = buffer.as_ref().len();\n        let decoded = serdect::array::deserialize_hex_or_bin(buffer.as_mut(), deserializer)?.len();\n        if decoded != expected {\n            return Err(serdect::serde::de::Error::invalid_length(\n                decoded,\n                &\"an encoding of the integer's full size\",\n            ));\n        }\n",
      new="        serdect::array::deserialize_hex_or_bin(buffer.as_mut(), deserializer)?;\n",
      expect="c16.declen|<uint::Uint<_> as serdect::serde::Deserialize<_>>::deserialize|0"),
 # --- c06.onesided (seed C06f)
 dict(name="boxed_ct_lt_one_sided_loop", prop="C06", file="src/uint/boxed/cmp.rs",
      old="        let (_, borrow) = self.sbb(other, Limb::ZERO);\n        ConstChoice::from_word_mask(borrow.0).into()",
      new="        let mut borrow = Limb::ZERO;\n        for (i, a) in self.limbs.iter().enumerate() {\n            let b = other.limbs.get(i).unwrap_or(&Limb::ZERO);\n            (_, borrow) = a.sbb(*b, borrow);\n        }\n        ConstChoice::from_word_mask(borrow.0).into()",
      expect="c06.onesided|uint::boxed::cmp::<impl subtle::ConstantTimeLess for uint::boxed::BoxedUint>::ct_lt"),
 # --- reverse of repo fix 71d0d7f
 dict(name="inv_mod2k_vartime_expect", prop="C11", file="src/uint/inv_mod.rs",
      old="                .overflowing_shl_vartime(i)\n                .unwrap_or(Self::ZERO);", new="                .overflowing_shl_vartime(i)\n                .expect(\"shift within range\");",
      expect="c11.panic|uint::inv_mod::<impl uint::Uint<_>>::inv_mod2k_vartime"),
 # --- reverse of repo fix a7fbb61
 dict(name="limb_shl_overflow_check_only", prop="C05", file="src/limb/shl.rs",
      old="        assert!(\n            shift < Self::BITS,\n            \"`shift` within the bit size of the integer\"\n        );\n        Limb(self.0 << shift)", new="        Limb(self.0 << shift)",
      expect="c05.docpanic|limb::shl::<impl limb::Limb>::shl"),
 # --- c14.reminv (seeds C14a / C14b) and c10.iterbound (seeds C10a / C10c)
 dict(name="floor_uint_remainder_inverted_on_sign", prop="C14", file="src/int/div_uint.rs",
      old="        // Invert the remainder when self is negative and there is a non-zero remainder.\n        let remainder = Uint::select(&remainder, &rhs.wrapping_sub(&remainder), modify);\n\n        // Negate if applicable\n        let quotient = Self(quotient).wrapping_neg_if(lhs_sgn);\n\n        (quotient, remainder)\n    }\n\n    /// Variable time equivalent of [Self::div_floor_uint`].",
      new="        // Invert the remainder when self is negative and there is a non-zero remainder.\n        let remainder = Uint::select(&remainder, &rhs.wrapping_sub(&remainder), lhs_sgn);\n\n        // Negate if applicable\n        let quotient = Self(quotient).wrapping_neg_if(lhs_sgn);\n\n        (quotient, remainder)\n    }\n\n    /// Variable time equivalent of [Self::div_floor_uint`].",
      expect="c14.reminv|int::div_uint::<impl int::Int<_>>::div_rem_floor_uint_vartime"),
 dict(name="divsteps_bound_from_modulus_only", prop="C10", file="src/modular/safegcd.rs",
      old="    let m = iterations(f_0.bits(), g.bits());", new="    let m = iterations(f_0.bits(), f_0.bits());",
      expect="c10.iterbound|modular::safegcd::divsteps"),
 # --- c19.route (seed C19c)
 dict(name="const_monty_random_full_width", prop="C19", file="src/modular/const_monty_form.rs",
      old="        Ok(Self::new(&Uint::try_random_mod(\n            rng,\n            MOD::MODULUS.as_nz_ref(),\n        )?))", new="        Ok(Self::new(&Uint::try_random(rng)?))",
      expect="c19.route|<modular::const_monty_form::ConstMontyForm<_> as traits::Random>::try_random"),
 # --- c11.docpanic crate-wide (reverse of repo fix 5066ab8 seen through C11)
 dict(name="boxed_adc_assign_debug_only_c11", prop="C11", file="src/uint/boxed/add.rs",
      old="        assert!(\n            self.bits_precision() >= (rhs.as_ref().len() as u32 * Limb::BITS),", new="        debug_assert!(\n            self.bits_precision() >= (rhs.as_ref().len() as u32 * Limb::BITS),",
      expect="c11.docpanic|uint::boxed::add::<impl uint::boxed::BoxedUint>::adc_assign"),
 # --- reverse of repo fix f0fd316
 dict(name="radix_encoder_truncating_shift_compare", prop="C17", file="src/uint/encoding.rs",
      old="                if ((limbs[limb_count - 1].0 as WideWord) << lshift) < div_limb.0 as WideWord {", new="                if limbs[limb_count - 1] << lshift < div_limb {",
      expect="c17.shlcmp|uint::encoding::RadixDivisionParams::encode_limbs"),
]

def main():
    os.makedirs(OUT, exist_ok=True)
    for f in os.listdir(OUT):
        os.unlink(os.path.join(OUT, f))
    index = []
    for m in M:
        if m.get("patch"):
            diff = open(m["patch"]).read()
        else:
            src = subprocess.check_output(["git", "-C", "/repo", "show", "HEAD:" + m["file"]], text=True)
            assert m["old"] in src, (m["name"], "old text not found")
            new = src.replace(m["old"], m["new"], m.get("count", 1))
            diff = "".join(difflib.unified_diff(src.splitlines(True), new.splitlines(True), "a/" + m["file"], "b/" + m["file"]))
        fn = "%s-%s.patch" % (m["prop"], m["name"])
        with open(os.path.join(OUT, fn), "w") as fh:
            fh.write(diff)
        index.append({"patch": fn, "property": m["prop"], "expect_key_contains": m["expect"], "name": m["name"]})
    with open(os.path.join(OUT, "index.json"), "w") as fh:
        json.dump(index, fh, indent=1)
    print(len(index), "mutations written")

if __name__ == "__main__":
    main()
