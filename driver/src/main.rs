//! E1 — fact extractor for /verif (see DESIGN.md §2.1).
//!
//! A rustc driver used as RUSTC_WORKSPACE_WRAPPER under `cargo +nightly check`.
//! For the crate named `crypto_bigint` it serialises, after analysis, one JSON
//! record per line into the file named by $CBV_OUT:
//!   {"t":"meta",...}   one
//!   {"t":"adt",...}    per local ADT
//!   {"t":"impl",...}   per local impl
//!   {"t":"body",...}   per MIR body (fns, closures, const initialisers, promoteds)
//! Nothing is executed; the file is written once per process.
#![feature(rustc_private)]
#![allow(rustc::internal)]

extern crate rustc_driver;
extern crate rustc_hir;
extern crate rustc_interface;
extern crate rustc_middle;
extern crate rustc_span;

use rustc_driver::{Callbacks, Compilation};
use rustc_hir::def::DefKind;
use rustc_hir::def_id::{DefId, LOCAL_CRATE};
use rustc_middle::mir::{
    self, AggregateKind, BinOp, Body, BorrowKind, CastKind, Const as MirConst, Operand, Place,
    ProjectionElem, Rvalue, StatementKind, TerminatorKind, UnwindAction,
};
use rustc_middle::ty::print::with_no_trimmed_paths;
use rustc_middle::ty::{self, Instance, Ty, TyCtxt, TypingEnv};
use rustc_span::Span;
use std::fmt::Write as _;

struct Cb;

fn esc(s: &str, out: &mut String) {
    out.push('"');
    for c in s.chars() {
        match c {
            '"' => out.push_str("\\\""),
            '\\' => out.push_str("\\\\"),
            '\n' => out.push_str("\\n"),
            '\r' => out.push_str("\\r"),
            '\t' => out.push_str("\\t"),
            c if (c as u32) < 0x20 => {
                let _ = write!(out, "\\u{:04x}", c as u32);
            }
            c => out.push(c),
        }
    }
    out.push('"');
}

fn js(s: &str) -> String {
    let mut o = String::with_capacity(s.len() + 2);
    esc(s, &mut o);
    o
}

fn opt_js(s: Option<String>) -> String {
    match s {
        Some(s) => js(&s),
        None => "null".to_string(),
    }
}

struct Cx<'tcx> {
    tcx: TyCtxt<'tcx>,
}

impl<'tcx> Cx<'tcx> {
    fn path(&self, did: DefId) -> String {
        with_no_trimmed_paths!(self.tcx.def_path_str(did))
    }

    fn ty(&self, t: Ty<'tcx>) -> String {
        with_no_trimmed_paths!(format!("{}", t))
    }

    fn span(&self, sp: Span) -> String {
        let sm = self.tcx.sess.source_map();
        let lo = sm.lookup_char_pos(sp.lo());
        let name = format!("{}", lo.file.name.prefer_local_unconditionally());
        format!("{}:{}", name, lo.line)
    }

    fn macros(&self, sp: Span) -> String {
        // innermost → outermost macro names of the expansion backtrace
        let mut v: Vec<String> = Vec::new();
        for ed in sp.macro_backtrace() {
            let s = match ed.kind {
                rustc_span::ExpnKind::Macro(k, name) => format!("{}:{}", k.descr(), name),
                rustc_span::ExpnKind::Desugaring(d) => format!("desugar:{:?}", d),
                rustc_span::ExpnKind::AstPass(p) => format!("astpass:{:?}", p),
                rustc_span::ExpnKind::Root => "root".to_string(),
            };
            v.push(js(&s));
            if v.len() > 8 {
                break;
            }
        }
        format!("[{}]", v.join(","))
    }

    fn place(&self, body: &Body<'tcx>, p: &Place<'tcx>) -> String {
        let tcx = self.tcx;
        let mut o = String::new();
        let _ = write!(o, "[{},[", p.local.as_usize());
        let mut pty = mir::PlaceTy::from_ty(body.local_decls[p.local].ty);
        let mut first = true;
        for elem in p.projection.iter() {
            if !first {
                o.push(',');
            }
            first = false;
            match elem {
                ProjectionElem::Deref => o.push_str("\"*\""),
                ProjectionElem::Field(f, _) => {
                    let (name, adt) = match pty.ty.kind() {
                        ty::Adt(def, _) => {
                            let vidx = pty.variant_index.unwrap_or(rustc_abi_first_variant());
                            let name = if def.variants().len() > vidx.as_usize() {
                                let v = def.variant(vidx);
                                if v.fields.len() > f.as_usize() {
                                    v.fields[f].name.to_string()
                                } else {
                                    f.as_usize().to_string()
                                }
                            } else {
                                f.as_usize().to_string()
                            };
                            (name, Some(self.path(def.did())))
                        }
                        _ => (f.as_usize().to_string(), None),
                    };
                    let _ = write!(o, "[\"f\",{},{},{}]", f.as_usize(), js(&name), opt_js(adt));
                }
                ProjectionElem::Index(l) => {
                    let _ = write!(o, "[\"i\",{}]", l.as_usize());
                }
                ProjectionElem::ConstantIndex { offset, from_end, .. } => {
                    let _ = write!(o, "[\"ci\",{},{}]", offset, from_end);
                }
                ProjectionElem::Subslice { from, to, from_end } => {
                    let _ = write!(o, "[\"ss\",{},{},{}]", from, to, from_end);
                }
                ProjectionElem::Downcast(_, v) => {
                    let _ = write!(o, "[\"dc\",{}]", v.as_usize());
                }
                ProjectionElem::OpaqueCast(_) => o.push_str("[\"oc\"]"),
                ProjectionElem::UnwrapUnsafeBinder(_) => o.push_str("[\"ub\"]"),
            }
            pty = pty.projection_ty(tcx, elem);
        }
        o.push_str("]]");
        o
    }

    fn konst(&self, c: &mir::ConstOperand<'tcx>) -> String {
        let ty = c.const_.ty();
        let tys = self.ty(ty);
        let mut def: Option<String> = None;
        let mut dk: Option<String> = None;
        let mut promoted: Option<usize> = None;
        let mut gargs: Option<String> = None;
        match c.const_ {
            MirConst::Unevaluated(uv, _) => {
                def = Some(self.path(uv.def));
                dk = Some(format!("{:?}", self.tcx.def_kind(uv.def)));
                promoted = uv.promoted.map(|p| p.as_usize());
                gargs = Some(with_no_trimmed_paths!(format!("{:?}", uv.args)));
            }
            _ => {}
        }
        if let ty::FnDef(did, args) = ty.kind() {
            def = Some(self.path(*did));
            dk = Some(format!("{:?}", self.tcx.def_kind(*did)));
            gargs = Some(with_no_trimmed_paths!(format!("{:?}", args)));
        }
        let mut val = with_no_trimmed_paths!(format!("{}", c.const_));
        if val.len() > 120 {
            val.truncate(120);
        }
        format!(
            "[\"k\",{},{},{},{},{},{}]",
            js(&tys),
            js(&val),
            opt_js(def),
            opt_js(dk),
            promoted.map(|p| p.to_string()).unwrap_or("null".into()),
            opt_js(gargs)
        )
    }

    fn operand(&self, body: &Body<'tcx>, op: &Operand<'tcx>) -> String {
        match op {
            Operand::Copy(p) => format!("[\"c\",{}]", self.place(body, p)),
            Operand::Move(p) => format!("[\"m\",{}]", self.place(body, p)),
            Operand::Constant(c) => self.konst(c),
            _ => format!("[\"k\",\"bool\",{},null,null,null,null]", js(&format!("{:?}", op))),
        }
    }

    fn rvalue(&self, body: &Body<'tcx>, rv: &Rvalue<'tcx>) -> String {
        match rv {
            Rvalue::Use(op, _) => format!("[\"use\",{}]", self.operand(body, op)),
            Rvalue::Repeat(op, n) => {
                format!("[\"repeat\",{},{}]", self.operand(body, op), js(&format!("{}", n)))
            }
            Rvalue::Ref(_, bk, p) => {
                let k = match bk {
                    BorrowKind::Shared => "shared",
                    BorrowKind::Fake(_) => "fake",
                    BorrowKind::Mut { .. } => "mut",
                };
                format!("[\"ref\",\"{}\",{}]", k, self.place(body, p))
            }
            Rvalue::ThreadLocalRef(_) => "[\"tlr\"]".to_string(),
            Rvalue::RawPtr(k, p) => {
                format!("[\"rawptr\",{},{}]", js(&format!("{:?}", k)), self.place(body, p))
            }
            Rvalue::Cast(k, op, t) => {
                let ks = match k {
                    CastKind::PointerCoercion(pc, _) => format!("PointerCoercion({:?})", pc),
                    other => format!("{:?}", other),
                };
                format!("[\"cast\",{},{},{}]", js(&ks), self.operand(body, op), js(&self.ty(*t)))
            }
            Rvalue::BinaryOp(op, ab) => {
                let (a, b) = &**ab;
                format!(
                    "[\"bin\",\"{}\",{},{}]",
                    binop(*op),
                    self.operand(body, a),
                    self.operand(body, b)
                )
            }
            Rvalue::UnaryOp(op, a) => {
                format!("[\"un\",{},{}]", js(&format!("{:?}", op)), self.operand(body, a))
            }
            Rvalue::Discriminant(p) => format!("[\"discr\",{}]", self.place(body, p)),
            Rvalue::Aggregate(kind, ops) => {
                let opss: Vec<String> = ops.iter().map(|o| self.operand(body, o)).collect();
                let (k, adt, variant, names) = match &**kind {
                    AggregateKind::Array(_) => ("array", None, 0usize, vec![]),
                    AggregateKind::Tuple => ("tuple", None, 0, vec![]),
                    AggregateKind::Adt(did, v, _, _, active) => {
                        let def = self.tcx.adt_def(*did);
                        let var = def.variant(*v);
                        let names: Vec<String> = if let Some(a) = active {
                            vec![var.fields[*a].name.to_string()]
                        } else {
                            var.fields.iter().map(|f| f.name.to_string()).collect()
                        };
                        ("adt", Some(self.path(*did)), v.as_usize(), names)
                    }
                    AggregateKind::Closure(did, _) => ("closure", Some(self.path(*did)), 0, vec![]),
                    AggregateKind::Coroutine(did, _) => {
                        ("coroutine", Some(self.path(*did)), 0, vec![])
                    }
                    AggregateKind::CoroutineClosure(did, _) => {
                        ("coroutine_closure", Some(self.path(*did)), 0, vec![])
                    }
                    AggregateKind::RawPtr(..) => ("rawptr", None, 0, vec![]),
                };
                let names: Vec<String> = names.iter().map(|n| js(n)).collect();
                format!(
                    "[\"agg\",\"{}\",{},{},[{}],[{}]]",
                    k,
                    opt_js(adt),
                    variant,
                    opss.join(","),
                    names.join(",")
                )
            }
            Rvalue::CopyForDeref(p) => format!("[\"cfd\",{}]", self.place(body, p)),
            Rvalue::WrapUnsafeBinder(op, _) => format!("[\"use\",{}]", self.operand(body, op)),
        }
    }

    fn callee(&self, owner: DefId, func: &Operand<'tcx>, body: &Body<'tcx>) -> String {
        let tcx = self.tcx;
        if let Some((did, args)) = func.const_fn_def() {
            let decl = self.path(did);
            let dk = format!("{:?}", tcx.def_kind(did));
            let gargs = with_no_trimmed_paths!(format!("{:?}", args));
            let tr = tcx.trait_of_assoc(did).map(|t| self.path(t));
            let self_ty = if tr.is_some() && args.len() > 0 {
                args.get(0).and_then(|a| a.as_type()).map(|t| self.ty(t))
            } else {
                None
            };
            let mut res: Option<String> = None;
            let mut res_kind: Option<String> = None;
            let mut res_args: Option<String> = None;
            let env = TypingEnv::post_analysis(tcx, owner);
            if let Ok(Some(inst)) = Instance::try_resolve(tcx, env, did, args) {
                res = Some(self.path(inst.def_id()));
                res_args = Some(with_no_trimmed_paths!(format!("{:?}", inst.args)));
                res_kind = Some(
                    match inst.def {
                        ty::InstanceKind::Item(_) => "item",
                        ty::InstanceKind::Intrinsic(_) => "intrinsic",
                        ty::InstanceKind::Virtual(..) => "virtual",
                        ty::InstanceKind::ClosureOnceShim { .. } => "closure_once_shim",
                        ty::InstanceKind::FnPtrShim(..) => "fnptr_shim",
                        ty::InstanceKind::CloneShim(..) => "clone_shim",
                        ty::InstanceKind::DropGlue(..) => "drop_glue",
                        ty::InstanceKind::ReifyShim(..) => "reify_shim",
                        ty::InstanceKind::VTableShim(..) => "vtable_shim",
                        _ => "other",
                    }
                    .to_string(),
                );
            }
            let local = did.is_local();
            format!(
                "{{\"decl\":{},\"dk\":{},\"gargs\":{},\"trait\":{},\"self\":{},\"res\":{},\"rk\":{},\"rargs\":{},\"local\":{}}}",
                js(&decl),
                js(&dk),
                js(&gargs),
                opt_js(tr),
                opt_js(self_ty),
                opt_js(res),
                opt_js(res_kind),
                opt_js(res_args),
                local
            )
        } else {
            format!("{{\"indirect\":{}}}", self.operand(body, func))
        }
    }

    fn body_json(
        &self,
        owner: DefId,
        id: &str,
        kind: &str,
        body: &Body<'tcx>,
        header_extra: &str,
    ) -> String {
        let tcx = self.tcx;
        let mut o = String::with_capacity(4096);
        let _ = write!(o, "{{\"t\":\"body\",\"id\":{},\"kind\":{}", js(id), js(kind));
        o.push_str(header_extra);
        let _ = write!(o, ",\"span\":{}", js(&self.span(body.span)));
        let _ = write!(o, ",\"argc\":{}", body.arg_count);
        // locals
        o.push_str(",\"locals\":[");
        for (i, ld) in body.local_decls.iter().enumerate() {
            if i > 0 {
                o.push(',');
            }
            o.push_str(&js(&self.ty(ld.ty)));
        }
        o.push(']');
        // debug names
        o.push_str(",\"names\":{");
        let mut first = true;
        for vdi in body.var_debug_info.iter() {
            if let mir::VarDebugInfoContents::Place(p) = &vdi.value {
                if p.projection.is_empty() {
                    if !first {
                        o.push(',');
                    }
                    first = false;
                    let _ = write!(o, "\"{}\":{}", p.local.as_usize(), js(vdi.name.as_str()));
                }
            }
        }
        o.push('}');
        // blocks
        o.push_str(",\"blocks\":[");
        for (bi, bb) in body.basic_blocks.iter().enumerate() {
            if bi > 0 {
                o.push(',');
            }
            let _ = write!(o, "{{\"cleanup\":{},\"stmts\":[", bb.is_cleanup);
            let mut firsts = true;
            for st in bb.statements.iter() {
                let s = match &st.kind {
                    StatementKind::Assign(b) => {
                        let (p, rv) = &**b;
                        Some(format!(
                            "[\"a\",{},{},{},{}]",
                            self.place(body, p),
                            self.rvalue(body, rv),
                            js(&self.span(st.source_info.span)),
                            if st.source_info.span.from_expansion() {
                                self.macros(st.source_info.span)
                            } else {
                                "[]".to_string()
                            }
                        ))
                    }
                    StatementKind::SetDiscriminant { place, variant_index } => Some(format!(
                        "[\"sd\",{},{},{}]",
                        self.place(body, place),
                        variant_index.as_usize(),
                        js(&self.span(st.source_info.span))
                    )),
                    StatementKind::Intrinsic(i) => Some(format!(
                        "[\"intr\",{},{}]",
                        js(&format!("{:?}", i)),
                        js(&self.span(st.source_info.span))
                    )),
                    _ => None,
                };
                if let Some(s) = s {
                    if !firsts {
                        o.push(',');
                    }
                    firsts = false;
                    o.push_str(&s);
                }
            }
            o.push_str("],\"term\":");
            let term = bb.terminator();
            let sp = term.source_info.span;
            let common = format!(
                "\"s\":{},\"m\":{}",
                js(&self.span(sp)),
                if sp.from_expansion() { self.macros(sp) } else { "[]".to_string() }
            );
            let t = match &term.kind {
                TerminatorKind::Goto { target } => {
                    format!("{{\"k\":\"goto\",\"t\":{},{}}}", target.as_usize(), common)
                }
                TerminatorKind::SwitchInt { discr, targets } => {
                    let vals: Vec<String> = targets.iter().map(|(v, _)| v.to_string()).collect();
                    let mut tg: Vec<String> =
                        targets.iter().map(|(_, t)| t.as_usize().to_string()).collect();
                    tg.push(targets.otherwise().as_usize().to_string());
                    let dty = discr.ty(&body.local_decls, tcx);
                    format!(
                        "{{\"k\":\"switch\",\"op\":{},\"ty\":{},\"vals\":[{}],\"t\":[{}],{}}}",
                        self.operand(body, discr),
                        js(&self.ty(dty)),
                        vals.iter().map(|v| js(v)).collect::<Vec<_>>().join(","),
                        tg.join(","),
                        common
                    )
                }
                TerminatorKind::Return => format!("{{\"k\":\"ret\",{}}}", common),
                TerminatorKind::Unreachable => format!("{{\"k\":\"unreach\",{}}}", common),
                TerminatorKind::UnwindResume => format!("{{\"k\":\"resume\",{}}}", common),
                TerminatorKind::UnwindTerminate(_) => format!("{{\"k\":\"abort\",{}}}", common),
                TerminatorKind::Drop { place, target, .. } => format!(
                    "{{\"k\":\"drop\",\"p\":{},\"t\":{},{}}}",
                    self.place(body, place),
                    target.as_usize(),
                    common
                ),
                TerminatorKind::Call { func, args, destination, target, unwind, fn_span, .. } => {
                    let a: Vec<String> = args.iter().map(|a| self.operand(body, &a.node)).collect();
                    let u = match unwind {
                        UnwindAction::Cleanup(b) => b.as_usize().to_string(),
                        _ => "null".to_string(),
                    };
                    format!(
                        "{{\"k\":\"call\",\"f\":{},\"args\":[{}],\"dst\":{},\"t\":{},\"u\":{},\"fs\":{},{}}}",
                        self.callee(owner, func, body),
                        a.join(","),
                        self.place(body, destination),
                        target.map(|t| t.as_usize().to_string()).unwrap_or("null".into()),
                        u,
                        js(&self.span(*fn_span)),
                        common
                    )
                }
                TerminatorKind::TailCall { func, args, .. } => {
                    let a: Vec<String> = args.iter().map(|a| self.operand(body, &a.node)).collect();
                    format!(
                        "{{\"k\":\"tailcall\",\"f\":{},\"args\":[{}],{}}}",
                        self.callee(owner, func, body),
                        a.join(","),
                        common
                    )
                }
                TerminatorKind::Assert { cond, expected, msg, target, .. } => {
                    let kind = match &**msg {
                        mir::AssertKind::BoundsCheck { .. } => "bounds".to_string(),
                        mir::AssertKind::Overflow(op, ..) => format!("overflow:{}", binop(*op)),
                        mir::AssertKind::OverflowNeg(_) => "overflow:neg".to_string(),
                        mir::AssertKind::DivisionByZero(_) => "div_by_zero".to_string(),
                        mir::AssertKind::RemainderByZero(_) => "rem_by_zero".to_string(),
                        mir::AssertKind::MisalignedPointerDereference { .. } => {
                            "misaligned".to_string()
                        }
                        mir::AssertKind::NullPointerDereference => "null_deref".to_string(),
                        other => {
                            let mut s = format!("{:?}", other);
                            s.truncate(40);
                            s
                        }
                    };
                    format!(
                        "{{\"k\":\"assert\",\"cond\":{},\"exp\":{},\"msg\":{},\"t\":{},{}}}",
                        self.operand(body, cond),
                        expected,
                        js(&kind),
                        target.as_usize(),
                        common
                    )
                }
                TerminatorKind::FalseEdge { real_target, .. } => {
                    format!("{{\"k\":\"goto\",\"t\":{},{}}}", real_target.as_usize(), common)
                }
                TerminatorKind::FalseUnwind { real_target, .. } => {
                    format!("{{\"k\":\"goto\",\"t\":{},{}}}", real_target.as_usize(), common)
                }
                other => {
                    let mut s = format!("{:?}", other);
                    s.truncate(60);
                    format!("{{\"k\":\"other\",\"d\":{},{}}}", js(&s), common)
                }
            };
            o.push_str(&t);
            o.push('}');
        }
        o.push_str("]}");
        o
    }

    fn header(&self, did: DefId) -> String {
        let tcx = self.tcx;
        let kind = tcx.def_kind(did);
        let mut o = String::new();
        // visibility
        let (vis, reach) = if let Some(l) = did.as_local() {
            let ev = tcx.effective_visibilities(());
            let vis = match kind {
                DefKind::Fn | DefKind::AssocFn | DefKind::Const { .. } | DefKind::AssocConst { .. } | DefKind::Static { .. } => {
                    if tcx.visibility(did).is_public() { "pub" } else { "restricted" }
                }
                _ => "n/a",
            };
            (vis, ev.is_reachable(l))
        } else {
            ("n/a", false)
        };
        let _ = write!(o, ",\"vis\":\"{}\",\"reach\":{}", vis, reach);
        // const fn
        let is_const = matches!(kind, DefKind::Fn | DefKind::AssocFn) && tcx.is_const_fn(did);
        let _ = write!(o, ",\"const_fn\":{}", is_const);
        // docs & attrs
        let mut doc = String::new();
        let mut inline = false;
        if matches!(kind, DefKind::Fn | DefKind::AssocFn | DefKind::Const { .. } | DefKind::AssocConst { .. }) {
            for a in tcx.get_all_attrs(did) {
                if let Some(d) = a.doc_str() {
                    doc.push_str(d.as_str());
                    doc.push('\n');
                }
            }
            if matches!(kind, DefKind::Fn | DefKind::AssocFn) {
                let cf = tcx.codegen_fn_attrs(did);
                inline = !matches!(cf.inline, rustc_hir::attrs::InlineAttr::None);
            }
        }
        let _ = write!(o, ",\"doc\":{},\"inline\":{}", js(&doc), inline);
        // documentation of the trait item an impl method implements (docs usually live on the trait)
        let mut trait_doc = String::new();
        if matches!(kind, DefKind::AssocFn) {
            if let Some(ti) = tcx.trait_item_of(did) {
                if ti != did {
                    for a in tcx.get_all_attrs(ti) {
                        if let Some(d) = a.doc_str() {
                            trait_doc.push_str(d.as_str());
                            trait_doc.push('\n');
                        }
                    }
                }
            }
        }
        let _ = write!(o, ",\"trait_doc\":{}", js(&trait_doc));
        // name
        if let Some(n) = tcx.opt_item_name(did) {
            let _ = write!(o, ",\"name\":{}", js(n.as_str()));
        } else {
            o.push_str(",\"name\":null");
        }
        // parent impl / trait
        let mut impl_self: Option<String> = None;
        let mut impl_trait: Option<String> = None;
        let mut impl_trait_ref: Option<String> = None;
        let mut impl_id: Option<String> = None;
        let mut derived = false;
        let mut in_trait: Option<String> = None;
        if matches!(kind, DefKind::AssocFn | DefKind::AssocConst { .. }) {
            let parent = tcx.parent(did);
            match tcx.def_kind(parent) {
                DefKind::Impl { of_trait } => {
                    impl_id = Some(self.path(parent));
                    let st = tcx.type_of(parent).instantiate_identity().skip_norm_wip();
                    impl_self = Some(self.ty(st));
                    if of_trait {
                        let tr = tcx.impl_trait_ref(parent).instantiate_identity().skip_norm_wip();
                        impl_trait = Some(self.path(tr.def_id));
                        impl_trait_ref = Some(with_no_trimmed_paths!(format!("{}", tr)));
                    }
                    derived = tcx.is_automatically_derived(parent);
                }
                DefKind::Trait => {
                    in_trait = Some(self.path(parent));
                }
                _ => {}
            }
        }
        let _ = write!(
            o,
            ",\"impl\":{},\"impl_self\":{},\"impl_trait\":{},\"impl_trait_ref\":{},\"derived\":{},\"in_trait\":{}",
            opt_js(impl_id),
            opt_js(impl_self),
            opt_js(impl_trait),
            opt_js(impl_trait_ref),
            derived,
            opt_js(in_trait)
        );
        // generics
        let mut gens: Vec<String> = Vec::new();
        if !matches!(kind, DefKind::AnonConst | DefKind::InlineConst) {
            let mut g = Some(tcx.generics_of(did));
            let mut stack = Vec::new();
            while let Some(gg) = g {
                stack.push(gg);
                g = gg.parent.map(|p| tcx.generics_of(p));
            }
            for gg in stack.iter().rev() {
                for p in gg.own_params.iter() {
                    let k = match p.kind {
                        ty::GenericParamDefKind::Lifetime => "lt",
                        ty::GenericParamDefKind::Type { .. } => "ty",
                        ty::GenericParamDefKind::Const { .. } => "const",
                    };
                    gens.push(format!("[{},\"{}\"]", js(p.name.as_str()), k));
                }
            }
        }
        let _ = write!(o, ",\"generics\":[{}]", gens.join(","));
        // signature
        if matches!(kind, DefKind::Fn | DefKind::AssocFn) {
            let sig = tcx.fn_sig(did).instantiate_identity().skip_norm_wip().skip_binder();
            let ins: Vec<String> = sig.inputs().iter().map(|t| js(&self.ty(*t))).collect();
            let _ = write!(
                o,
                ",\"sig_in\":[{}],\"sig_out\":{}",
                ins.join(","),
                js(&self.ty(sig.output()))
            );
        }
        // macro provenance of the item
        let sp = tcx.def_span(did);
        let _ = write!(o, ",\"item_macros\":{}", if sp.from_expansion() { self.macros(sp) } else { "[]".into() });
        o
    }
}

fn rustc_abi_first_variant() -> rustc_abi_shim::VariantIdx {
    rustc_abi_shim::VariantIdx::from_u32(0)
}

mod rustc_abi_shim {
    extern crate rustc_abi;
    pub use rustc_abi::VariantIdx;
}

fn binop(op: BinOp) -> &'static str {
    match op {
        BinOp::Add => "Add",
        BinOp::AddUnchecked => "AddUnchecked",
        BinOp::AddWithOverflow => "AddWithOverflow",
        BinOp::Sub => "Sub",
        BinOp::SubUnchecked => "SubUnchecked",
        BinOp::SubWithOverflow => "SubWithOverflow",
        BinOp::Mul => "Mul",
        BinOp::MulUnchecked => "MulUnchecked",
        BinOp::MulWithOverflow => "MulWithOverflow",
        BinOp::Div => "Div",
        BinOp::Rem => "Rem",
        BinOp::BitXor => "BitXor",
        BinOp::BitAnd => "BitAnd",
        BinOp::BitOr => "BitOr",
        BinOp::Shl => "Shl",
        BinOp::ShlUnchecked => "ShlUnchecked",
        BinOp::Shr => "Shr",
        BinOp::ShrUnchecked => "ShrUnchecked",
        BinOp::Eq => "Eq",
        BinOp::Lt => "Lt",
        BinOp::Le => "Le",
        BinOp::Ne => "Ne",
        BinOp::Ge => "Ge",
        BinOp::Gt => "Gt",
        BinOp::Cmp => "Cmp",
        BinOp::Offset => "Offset",
    }
}

impl Callbacks for Cb {
    fn after_analysis<'tcx>(
        &mut self,
        _compiler: &rustc_interface::interface::Compiler,
        tcx: TyCtxt<'tcx>,
    ) -> Compilation {
        let want = std::env::var("CBV_CRATE").unwrap_or_else(|_| "crypto_bigint".to_string());
        if tcx.crate_name(LOCAL_CRATE).as_str() != want {
            return Compilation::Continue;
        }
        let out = match std::env::var("CBV_OUT") {
            Ok(o) => o,
            Err(_) => return Compilation::Continue,
        };
        let cx = Cx { tcx };
        let mut buf = String::with_capacity(64 << 20);
        let mut n_bodies = 0usize;

        // ADTs and impls
        for id in tcx.hir_crate_items(()).definitions() {
            let did = id.to_def_id();
            match tcx.def_kind(did) {
                DefKind::Struct | DefKind::Enum | DefKind::Union => {
                    let def = tcx.adt_def(did);
                    let mut vs: Vec<String> = Vec::new();
                    for v in def.variants().iter() {
                        let fs: Vec<String> = v
                            .fields
                            .iter()
                            .map(|f| {
                                let fty = tcx.type_of(f.did).instantiate_identity().skip_norm_wip();
                                format!(
                                    "{{\"name\":{},\"pub\":{},\"ty\":{}}}",
                                    js(f.name.as_str()),
                                    f.vis.is_public(),
                                    js(&cx.ty(fty))
                                )
                            })
                            .collect();
                        vs.push(format!(
                            "{{\"name\":{},\"fields\":[{}]}}",
                            js(v.name.as_str()),
                            fs.join(",")
                        ));
                    }
                    let ev = tcx.effective_visibilities(());
                    let _ = writeln!(
                        buf,
                        "{{\"t\":\"adt\",\"path\":{},\"kind\":{},\"pub\":{},\"reach\":{},\"variants\":[{}],\"span\":{}}}",
                        js(&cx.path(did)),
                        js(&format!("{:?}", tcx.def_kind(did))),
                        tcx.visibility(did).is_public(),
                        ev.is_reachable(id),
                        vs.join(","),
                        js(&cx.span(tcx.def_span(did)))
                    );
                }
                DefKind::Impl { of_trait } => {
                    let st = tcx.type_of(did).instantiate_identity().skip_norm_wip();
                    let (tr, trr) = if of_trait {
                        let t = tcx.impl_trait_ref(did).instantiate_identity().skip_norm_wip();
                        (Some(cx.path(t.def_id)), Some(with_no_trimmed_paths!(format!("{}", t))))
                    } else {
                        (None, None)
                    };
                    let items: Vec<String> = tcx
                        .associated_items(did)
                        .in_definition_order()
                        .map(|it| js(it.name().as_str()))
                        .collect();
                    let _ = writeln!(
                        buf,
                        "{{\"t\":\"impl\",\"path\":{},\"self\":{},\"trait\":{},\"trait_ref\":{},\"derived\":{},\"items\":[{}],\"span\":{},\"macros\":{}}}",
                        js(&cx.path(did)),
                        js(&cx.ty(st)),
                        opt_js(tr),
                        opt_js(trr),
                        tcx.is_automatically_derived(did),
                        items.join(","),
                        js(&cx.span(tcx.def_span(did))),
                        if tcx.def_span(did).from_expansion() { cx.macros(tcx.def_span(did)) } else { "[]".into() }
                    );
                }
                _ => {}
            }
        }

        for ldid in tcx.mir_keys(()) {
            let did = ldid.to_def_id();
            let kind = tcx.def_kind(did);
            let kinds = format!("{:?}", kind);
            let (body, ctfe): (&Body<'tcx>, bool) = match kind {
                DefKind::Fn | DefKind::AssocFn | DefKind::Closure => (tcx.optimized_mir(did), false),
                DefKind::Const { .. }
                | DefKind::AssocConst { .. }
                | DefKind::Static { .. }
                | DefKind::AnonConst
                | DefKind::InlineConst => (tcx.mir_for_ctfe(did), true),
                DefKind::Ctor(..) => continue,
                _ => continue,
            };
            let _ = ctfe;
            let id = cx.path(did);
            let header = cx.header(did);
            buf.push_str(&cx.body_json(did, &id, &kinds, body, &header));
            buf.push('\n');
            n_bodies += 1;
            // promoteds
            let proms = tcx.promoted_mir(did);
            for (pi, pb) in proms.iter_enumerated() {
                let pid = format!("{}::{{promoted#{}}}", id, pi.as_usize());
                let ph = format!(",\"promoted_of\":{}", js(&id));
                buf.push_str(&cx.body_json(did, &pid, "Promoted", pb, &ph));
                buf.push('\n');
            }
        }
        let meta = format!(
            "{{\"t\":\"meta\",\"crate\":{},\"bodies\":{},\"rustc\":{}}}\n",
            js(&want),
            n_bodies,
            js(option_env!("CFG_VERSION").unwrap_or("nightly"))
        );
        buf.push_str(&meta);
        std::fs::write(&out, buf).expect("write facts");
        Compilation::Continue
    }
}

fn main() {
    let mut args: Vec<String> = std::env::args().collect();
    // RUSTC_WORKSPACE_WRAPPER: argv[1] is the path of the real rustc
    if args.len() > 1 && (args[1].ends_with("rustc") || args[1].contains("/rustc")) {
        args.remove(1);
    }
    rustc_driver::run_compiler(&args, &mut Cb);
}
