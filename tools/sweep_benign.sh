#!/bin/bash
# sweep_benign.sh [pattern]: every check against every behaviour-preserving patch in selftest/benign (4 at a time);
# any line printed under a patch name is a false alarm of ours.
cd /verif
PAT=${1:-}
LOG=/tmp/confirm/sweep.log; mkdir -p /tmp/confirm; : > $LOG
one() {
  P=$1; N=$(basename $P .diff)
  W=$(mktemp -d /tmp/sweep.XXXXXX)
  git -C /repo archive HEAD | tar -x -C "$W"
  if ! (cd "$W" && patch -p1 -s < "$P") >/dev/null 2>&1; then echo "$N: PATCH DOES NOT APPLY"; rm -rf "$W"; return; fi
  R=""
  for p in C01 C02 C03 C04 C05 C06 C07 C08 C09 C11 C12 C15 C10 C13 C14 C16 C17 C18 C19; do
    out=$(CBV_REPO="$W" /verif/check $p 2>&1)
    if echo "$out" | grep -q "^VIOLATION"; then
      R="$R\n$N $p: $(echo "$out" | grep -A3 "^VIOLATION" | grep -E "key=|fail-closed" | cut -c1-300 | tr '\n' ' ')"
    fi
  done
  rm -rf "$W"
  if [ -n "$R" ]; then echo -e "$R"; else echo "$N: silent"; fi
}
export -f one
ls /verif/selftest/benign/*${PAT}*.diff | xargs -P 4 -I{} bash -c 'one {}' >> $LOG 2>&1
echo "== done" >> $LOG
