#!/bin/bash
# try_benign.sh <name> <dir with patch_*.diff>: run every check against each behaviour-preserving patch;
# any VIOLATION is a false alarm of ours.
NAME=$1; SRC=$2
LOG=/tmp/confirm/benign_$NAME.log; : > "$LOG"
for P in "$SRC"/patch_*.diff; do
  W=/tmp/confirm/benign_${NAME}_$(basename $P .diff)
  rm -rf "$W"; mkdir -p "$W"; git -C /repo archive HEAD | tar -x -C "$W"
  echo "=== $(basename $P)" >> "$LOG"
  if ! (cd "$W" && patch -p1 -s < "$P") >/dev/null 2>&1; then echo "PATCH DOES NOT APPLY" >> "$LOG"; rm -rf "$W"; continue; fi
  cd /verif
  for p in C01 C02 C03 C04 C05 C06 C07 C08 C09 C11 C12 C15 C10 C13 C14 C16 C17 C18 C19; do
    out=$(CBV_REPO="$W" ./check $p 2>&1)
    if echo "$out" | grep -q "^VIOLATION"; then
      echo "$out" | tail -1 >> "$LOG"
      echo "$out" | grep -A3 "^VIOLATION" | grep -E "key=|why=|fail-closed" | cut -c1-420 >> "$LOG"
    fi
  done
  rm -rf "$W"
done
echo "== done" >> "$LOG"
