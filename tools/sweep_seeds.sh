#!/bin/bash
# sweep_seeds.sh: every check against every stored seed; prints which checks raise an alarm per seed and
# compares with meta.json's detected_by.
cd /verif
LOG=/tmp/confirm/sweep_seeds.log; mkdir -p /tmp/confirm; : > $LOG
one() {
  D=$1; N=$(basename $D)
  W=$(mktemp -d /tmp/sweeps.XXXXXX)
  git -C /repo archive HEAD | tar -x -C "$W"
  if ! (cd "$W" && patch -p1 -s < "$D/patch.diff") >/dev/null 2>&1; then echo "$N: PATCH DOES NOT APPLY"; rm -rf "$W"; return; fi
  R=""
  for p in C01 C02 C03 C04 C05 C06 C07 C08 C09 C11 C12 C15 C10 C13 C14 C16 C17 C18 C19; do
    out=$(CBV_REPO="$W" /verif/check $p 2>&1)
    if echo "$out" | grep -q "^VIOLATION"; then R="$R,$p"; fi
  done
  rm -rf "$W"
  EXP=$(python3 -c "import json;print(','.join(json.load(open('$D/meta.json'))['detected_by']))")
  echo "$N: now=${R#,} recorded=$EXP"
}
export -f one
ls -d /verif/seeded/*/ | sed 's:/$::' | xargs -P 4 -I{} bash -c 'one {}' >> $LOG 2>&1
echo "== done" >> $LOG
