#!/usr/bin/env python3
"""Pretty-print bodies from a fact file: showbody.py <facts.jsonl> <substring> [...]"""
import json, sys
def pl(p):
    s="_%d"%p[0]
    for e in p[1]:
        if e=="*": s="(*%s)"%s
        elif e[0]=="f": s+=".%s"%e[2]
        elif e[0]=="i": s+="[_%d]"%e[1]
        elif e[0]=="ci": s+="[%s%d]"%("-" if e[2] else "",e[1])
        elif e[0]=="ss": s+="[%d..%s%d]"%(e[1],"-" if e[3] else "",e[2])
        elif e[0]=="dc": s+=" as v%d"%e[1]
        else: s+="?%s"%e
    return s
def op(o):
    if o[0]=="c": return pl(o[1])
    if o[0]=="m": return "move "+pl(o[1])
    return "const %s%s"%(o[2], (" {%s}"%o[3]) if o[3] else "")
def rv(r):
    k=r[0]
    if k=="use": return op(r[1])
    if k=="ref": return "&%s %s"%(r[1],pl(r[2]))
    if k=="rawptr": return "&raw %s"%pl(r[2])
    if k=="bin": return "%s(%s, %s)"%(r[1],op(r[2]),op(r[3]))
    if k=="un": return "%s(%s)"%(r[1],op(r[2]))
    if k=="cast": return "%s as %s [%s]"%(op(r[2]),r[3],r[1])
    if k=="agg": return "%s %s#%d{%s}"%(r[1],r[2],r[3],", ".join(op(x) for x in r[4]))
    if k=="discr": return "discr(%s)"%pl(r[1])
    if k=="repeat": return "[%s; %s]"%(op(r[1]),r[2])
    if k=="cfd": return "deref_copy %s"%pl(r[1])
    return str(r)
def show(b):
    print("=== %s [%s vis=%s reach=%s derived=%s] %s"%(b["id"],b["kind"],b.get("vis"),b.get("reach"),b.get("derived"),b["span"]))
    print("   sig:",b.get("sig_in"),"->",b.get("sig_out"), "generics",b.get("generics"))
    for i,t in enumerate(b["locals"]):
        print("   let _%d: %s %s"%(i,t,("// "+b["names"][str(i)]) if str(i) in b["names"] else ""))
    for i,bb in enumerate(b["blocks"]):
        print("  bb%d%s:"%(i," (cleanup)" if bb["cleanup"] else ""))
        for s in bb["stmts"]:
            if s[0]=="a": print("    %s = %s   // %s %s"%(pl(s[1]),rv(s[2]),s[3],s[4] if s[4] else ""))
            else: print("    ",s)
        t=bb["term"]; k=t["k"]
        if k=="call":
            f=t["f"]
            name=f.get("res") or f.get("decl") or ("indirect "+str(f.get("indirect")))
            print("    %s = %s(%s) -> bb%s  // decl=%s self=%s %s %s"%(pl(t["dst"]),name,", ".join(op(a) for a in t["args"]),t["t"],f.get("decl"),f.get("self"),t["s"],t["m"] or ""))
        elif k=="switch": print("    switch %s : %s -> %s  // %s %s"%(op(t["op"]),t["vals"],t["t"],t["s"],t["m"] or ""))
        elif k=="assert": print("    assert %s == %s (%s) -> bb%d // %s"%(op(t["cond"]),t["exp"],t["msg"],t["t"],t["s"]))
        elif k=="drop": print("    drop %s -> bb%d"%(pl(t["p"]),t["t"]))
        elif k=="goto": print("    goto bb%d"%t["t"])
        else: print("    %s"%k)
if __name__=="__main__":
    pats=sys.argv[2:]
    for l in open(sys.argv[1]):
        if '"t":"body"' not in l[:20]: continue
        if not any(p in l[:600] for p in pats): continue
        b=json.loads(l)
        if any(p in b["id"] for p in pats): show(b)
