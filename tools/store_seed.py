#!/usr/bin/env python3
"""store_seed.py <name> <property> <seed dir> <detected_by csv or -> <needs...>: copy a confirmed seeded change into /verif/seeded/<name>/"""
import json, os, shutil, sys, re
name, prop, src, det = sys.argv[1:5]
needs = " ".join(sys.argv[5:])
d = os.path.join("/verif/seeded", name)
os.makedirs(d, exist_ok=True)
shutil.copy(os.path.join(src, "patch.diff"), os.path.join(d, "patch.diff"))
shutil.copy(os.path.join(src, "demo.rs"), os.path.join(d, "demo.rs"))
if os.path.exists(os.path.join(src, "README.md")):
    shutil.copy(os.path.join(src, "README.md"), os.path.join(d, "AUTHOR_README.md"))
log = "/tmp/confirm/%s.log" % name
ran = []
if os.path.exists(log):
    txt = open(log).read()
    ran = [l for l in txt.splitlines() if re.match(r"^(==|passed|test result|C\d+:)", l)]
meta = {
    "property": prop,
    "breaks": open(os.path.join(src, "README.md")).read()[:1500] if os.path.exists(os.path.join(src, "README.md")) else "",
    "needs_to_manifest": needs,
    "confirmed_by_me": {
        "how": "tools/confirm_seed.sh: scratch copy of /repo HEAD + patch; cargo build --all-features; baseline suite "
               "(cargo test --workspace --offline) with the patch; the demo as tests/seed_demo.rs with --all-features "
               "with and without the patch; then every ./check with CBV_REPO=<scratch>",
        "log_excerpt": ran,
    },
    "detected_by": [] if det == "-" else det.split(","),
}
json.dump(meta, open(os.path.join(d, "meta.json"), "w"), indent=1)
print("stored", d)
