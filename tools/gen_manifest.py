#!/usr/bin/env python3
"""Regenerate /verif/MANIFEST.json from the table below (kept in one place so it never drifts)."""
import json, os
V = os.path.dirname(os.path.dirname(os.path.abspath(__file__)))

NA = {
 "C20": "floor-sqrt for every x depends on Hast's iteration bound and Newton convergence (numerical)",
}

PLANNED = {}

CHECKS = {}

def load_checks():
    p = os.path.join(V, "tools", "checks.json")
    with open(p) as fh:
        return json.load(fh)

def main():
    spec = load_checks()
    checks = []
    for pid, c in sorted(spec["checks"].items()):
        e = {
            "property_id": pid,
            "quick_cmd": "./check %s --tier quick" % pid,
            "thorough_cmd": "./check %s --tier thorough" % pid,
            "evidence_file": "/verif/evidence/%s.json" % pid,
            "replay_cmd_template": "./check %s --replay {path}" % pid,
            "engine": c["engine"],
            "level_claimed": {"category": "other", "text": c["level_text"], "design_ref": c["design_ref"]},
            "level_note": c["level_note"],
            "technique": c["technique"],
        }
        checks.append(e)
    na = [{"property_id": k, "reason": v} for k, v in sorted(NA.items())]
    for k, v in sorted(spec.get("planned", {}).items()):
        if k not in spec["checks"]:
            na.append({"property_id": k, "reason": v})
    na.sort(key=lambda x: x["property_id"])
    m = {
        "version": 1,
        "setup_cmd": "cd /verif/driver && CARGO_NET_OFFLINE=true cargo build --release --offline",
        "hooks": {
            "guard": "crypto_bigint_verif",
            "enable": "none needed: the rustc_private driver analyses the unmodified sources (RUSTC_WORKSPACE_WRAPPER under cargo +nightly check); no hook commits exist",
            "baseline_off_cmd": "cd /repo && cargo test --workspace --no-fail-fast --offline",
            "source_commits": [],
            "add_only": True,
        },
        "engines": spec["engines"],
        "checks": checks,
        "notes": spec.get("notes", ""),
        "not_applicable": na,
    }
    with open(os.path.join(V, "MANIFEST.json"), "w") as fh:
        json.dump(m, fh, indent=1)
        fh.write("\n")

if __name__ == "__main__":
    main()
