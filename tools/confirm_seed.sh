#!/bin/bash
# confirm_seed.sh <name> <dir containing patch.diff and demo.rs> : verify a seeded change independently
# and run every /verif check against it. Scratch copy under /tmp/confirm/<name>, removed at the end
# unless KEEP=1.
set -u
NAME=$1; SRC=$2
W=/tmp/confirm/$NAME
rm -rf "$W"; mkdir -p "$W"
LOG=/tmp/confirm/$NAME.log
: > "$LOG"
git -C /repo archive HEAD | tar -x -C "$W"
cd "$W"
if ! git apply --check "$SRC/patch.diff" 2>/dev/null && ! patch -p1 --dry-run < "$SRC/patch.diff" >/dev/null 2>&1; then echo "PATCH DOES NOT APPLY" >> "$LOG"; exit 1; fi
patch -p1 -s < "$SRC/patch.diff"
echo "== build all-features" >> "$LOG"
cargo build --offline --all-features 2>&1 | tail -2 >> "$LOG"
echo "== baseline suite with patch (no demo)" >> "$LOG"
cargo test --workspace --no-fail-fast --offline 2>&1 | grep -E "^test result|FAILED|failed" | awk '{p+=$4; f+=$6} END {print "passed",p,"failed",f}' >> "$LOG"
mkdir -p tests; cp "$SRC/demo.rs" tests/seed_demo.rs
echo "== demo WITH patch (all-features)" >> "$LOG"
cargo test --offline --all-features --test seed_demo 2>&1 | grep -E "^test result|^test .* (ok|FAILED)|error" | head -12 >> "$LOG"
patch -R -p1 -s < "$SRC/patch.diff"
echo "== demo WITHOUT patch (all-features)" >> "$LOG"
cargo test --offline --all-features --test seed_demo 2>&1 | grep -E "^test result|^test .* (ok|FAILED)|error" | head -12 >> "$LOG"
patch -p1 -s < "$SRC/patch.diff"
rm -f tests/seed_demo.rs
rm -rf target
echo "== checks" >> "$LOG"
cd /verif
for p in C01 C02 C03 C04 C05 C06 C07 C08 C09 C11 C12 C15 C10 C13 C14 C16 C17 C18 C19; do
  out=$(CBV_REPO="$W" ./check $p 2>&1)
  echo "$out" | tail -1 >> "$LOG"
  echo "$out" | grep -A3 "^VIOLATION" | grep -E "key=|why=" | cut -c1-400 >> "$LOG"
done
[ "${KEEP:-0}" = "1" ] || rm -rf "$W"
echo "== done" >> "$LOG"
