#!/bin/bash
# try_patch.sh <patch> <prop>... : run the given checks against a scratch copy of /repo HEAD with the patch applied
P=$(readlink -f "$1"); shift
W=$(mktemp -d /tmp/trypatch.XXXXXX)
git -C /repo archive HEAD | tar -x -C "$W"
(cd "$W" && patch -p1 -s < "$P") || { echo "PATCH DOES NOT APPLY"; rm -rf "$W"; exit 2; }
cd /verif
for p in "$@"; do
  out=$(CBV_REPO="$W" ./check $p 2>&1)
  echo "$out" | grep -A3 "^VIOLATION" | grep -E "key=|why=|fail-closed" | cut -c1-500
  echo "$out" | tail -1
done
rm -rf "$W"
