"""Iteration bound of the divstep loops looks at both operands (`c10.iterbound`).

The number of Bernstein–Yang divsteps needed to drive `g` to zero grows with max(bits(f), bits(g)).  The crate computes
it as `iterations(f_0.bits(), g.bits())`.  A bound computed from the bit length of ONE operand only is too small whenever
the other operand is the longer one (a small modulus and a wide value): the loop stops before `g` reaches zero, and the
inverter reports a wrong `is_some` / the gcd is wrong.  A bound that looks at neither operand (a constant for the type's
width) is fine.  Rule: the arguments of every call of `iterations` in `modular::safegcd*` are chased to the parameters
whose `bits()` / `bits_vartime()` / `bits_precision()` they are; exactly one distinct parameter is a violation."""
from .. import mir
from ..common import Instance, norm_id

BITS = {"bits", "bits_vartime", "bits_precision", "leading_zeros"}


def run(facts, report, config, prefix="c10.iterbound"):
    for b in facts.fn_bodies():
        if "modular::safegcd" not in b["id"] or b.get("derived"):
            continue
        view = mir.BodyView(b)
        prov = None
        n = 0
        for bi, t in view.calls():
            if view.blocks[bi]["cleanup"] or (mir.last_seg(mir.callee_name(t)) or "") != "iterations":
                continue
            prov = prov or mir.Provenance(view)
            report.count("divstep_iteration_bounds")
            key = "%s|%s|%d" % (prefix, norm_id(b["id"]), n)
            n += 1
            params, unknown = set(), False
            for a in t["args"]:
                for r in mir.uniq_roots(prov.roots_of_operand(a)):
                    if r.kind == "const":
                        continue
                    if r.kind == "call" and r.site is not None and (mir.last_seg(r.what) or "") in BITS:
                        tt = view.blocks[r.site[0]]["term"]
                        ps = {x.what for x in mir.uniq_roots(prov.roots_of_operand(tt["args"][0])) if x.kind == "param"}
                        if ps:
                            params |= ps
                            continue
                    unknown = True
            if unknown:
                report.add(Instance(key, prefix, "info", "bound not computed from operand bit lengths alone: not judged", t["s"],
                                    {"body": b["id"]}), config)
            elif len(params) == 1:
                report.add(Instance(key, prefix, "violation",
                                    "the divstep iteration bound in `%s` is computed from the bit length of parameter _%d only: "
                                    "when the other operand is longer the loop stops before g reaches zero (wrong is_some / gcd for "
                                    "a small modulus and a wide value)" % (b.get("name"), sorted(params)[0]), t["s"],
                                    {"body": b["id"]}), config)
            else:
                report.add(Instance(key, prefix, "ok", "auto: the bound looks at %s" % (
                    "both operands" if params else "neither operand (constant for the width)"), t["s"], {"body": b["id"]}), config)
