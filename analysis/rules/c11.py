"""C11 clause (a) — explicit panics reachable from operations that report failure through their
return type must not depend on the operation's inputs (DESIGN.md §3 C11).

Panic sites: calls resolving to core::panicking::*, Option/Result/CtOption::{unwrap, expect}
(condition = the discriminant / is_some component of the receiver), and the in-crate
ConstCtOption::{unwrap, expect} (through their bodies' assert!). debug_assert! is included (the
analysis build has debug assertions on). The guard of a site is the union of the labels of every
branch that decides whether the site executes, transitively along the call path.
"""
import re

from .. import mir, flow
from ..common import Instance, norm_id, load_table
from ..externals import model as ext_model

FALLIBLE = ("core::result::Result<", "core::option::Option<", "subtle::CtOption<", "const_choice::ConstCtOption<")
TOTAL_PREFIX = ("checked_", "overflowing_", "saturating_", "wrapping_", "try_")
UNWRAPS = {"expect", "unwrap", "expect_err", "unwrap_err"}
UNWRAP_OWNERS = ("core::option::Option", "core::result::Result", "subtle::CtOption")


def discr_labels(v):
    out = set(flow.v_read(v, ("#d",))) | set(v.t.get((), flow.EMPTY)) | set(flow.v_read(v, ("is_some",)))
    for (i, pre) in v.s:
        out.add(flow.sym_label(i, pre))
    return frozenset(out)


class PanicPolicy(flow.Policy):
    propagate_kinds = ("panic",)
    keep_empty_kinds = ("panic",)
    guarded_kinds = ("panic",)
    guard_mode = "immediate"
    implicit_flows = True

    def filter_event(self, kind, labels, info):
        return frozenset(l for l in labels if l.startswith("@"))

    def param_init(self, view, i):
        # modular wrapper-invariant rule: a function may assume its NonZero / Odd parameters valid
        # (that is C12's obligation), so conditions on them are not input conditions
        if mir.adt_of_ty(view.locals[i]) in ("non_zero::NonZero", "odd::Odd"):
            return flow.Val({(): frozenset({"wrapper-invariant"}), flow.LEN: frozenset({"@%d#len" % i})})
        return flow.Val({}, frozenset({(i, ())}))

    def on_call_event(self, callee_id, kind, sink, labels, info, view, bb, term):
        # panics inside the crate's own unwrap-like helpers are attributed to the call site
        name = mir.callee_name(term) or ""
        if kind == "panic" and mir.last_seg(name) in UNWRAPS and name.startswith("const_choice::ConstCtOption") \
                and sink.startswith(callee_id + "|"):
            n = 0
            for bi, t in view.calls():
                if bi == bb:
                    break
                if mir.callee_name(t) == name:
                    n += 1
            return ("%s|panic:%s|%d" % (view.id, "ConstCtOption:" + mir.last_seg(name), n),
                    dict(info, what="ConstCtOption:" + mir.last_seg(name), span=term["s"], macros=term["m"], body=view.id))
        return sink, info

    def call_hook(self, engine, view, bb, term, argvals, callee_ids):
        name = mir.callee_name(term) or ""
        if name.startswith("core::panicking::") or name in ("core::option::expect_failed", "core::result::unwrap_failed",
                                                             "core::option::unwrap_failed"):
            return (("panic", flow.EMPTY, {"what": "panic:" + mir.last_seg(name), "span": term["s"],
                                           "macros": term["m"]}),)
        seg = mir.last_seg(name)
        if seg in UNWRAPS and any(name.startswith(o) for o in UNWRAP_OWNERS) and argvals:
            return (("panic", discr_labels(argvals[0]),
                     {"what": "%s:%s" % (name.split("::<")[0].split("<")[0], seg), "span": term["s"], "macros": term["m"],
                      "cond": True}),)
        return ()

    def external(self, engine, view, bb, term, argvals):
        name = mir.callee_name(term) or ""
        n = norm_id(name)
        # subtle::CtOption keeps `value` and `is_some` apart
        if n == "subtle::CtOption<_>::new" and len(argvals) == 2:
            out = flow.v_write(flow.Val(), ("value",), argvals[0], strong=False)
            out = flow.v_write(out, ("is_some",), argvals[1], strong=False)
            return out, {}, ()
        if n in ("subtle::CtOption<_>::is_some", "subtle::CtOption<_>::is_none") and argvals:
            return flow.scalar(flow.v_read(argvals[0], ("is_some",))), {}, ()
        if n in ("subtle::CtOption<_>::unwrap", "subtle::CtOption<_>::expect") and argvals:
            return flow.v_sub(argvals[0], ("value",)), {}, ()
        return ext_model(view, term, argvals)


def is_total(b):
    if b["kind"] not in ("Fn", "AssocFn") or not b.get("reach"):
        return False
    name = b.get("name") or ""
    so = b.get("sig_out") or ""
    return so.startswith(FALLIBLE) or name.startswith(TOTAL_PREFIX)


def doc_panics(b):
    return "Panics" in (b.get("doc") or "") or "panics" in (b.get("doc") or "")


DYN_LEN_TY = ("[u8]", "[limb::Limb]", "[u64]", "[T]", "str", "BoxedUint", "Vec<", "Boxed", "[modular::", "&[(")


def has_dynamic_len(ty):
    t = mir.peel_refs(ty)
    if t.startswith("[") and ";" in t.split("]")[0]:
        return False  # fixed-size array
    return any(x in t for x in DYN_LEN_TY)


def is_debug_assert(info):
    return any("debug_assert" in m for m in (info.get("macros") or []))


def param_of(label):
    m = re.match(r"@(\d+)", label)
    return int(m.group(1)) if m else None


_CALLERS = {}


def _callers_of(facts, body_id):
    key = id(facts)
    if key not in _CALLERS:
        rev = {}
        for b in facts.fn_bodies():
            for bb in b["blocks"]:
                t = bb["term"]
                if t["k"] == "call" and not bb["cleanup"]:
                    res = t["f"].get("res")
                    if res:
                        rev.setdefault(res, set()).add(b["id"])
        _CALLERS[key] = rev
    return _CALLERS[key].get(body_id, set())


def _inherited_review(facts, reviewed, sbody, bad, present_keys):
    b = facts.bodies.get(sbody)
    if b is None or b.get("vis") == "pub":
        return None
    callers = _callers_of(facts, sbody)
    if not callers:
        return None
    keys = []
    for c in callers:
        # ... and only if the reviewed site itself is gone from the caller (the panic moved; a helper that adds a new,
        # different panic next to a still-present reviewed one inherits nothing)
        ks = [k for k, e in reviewed.items() if k.startswith("c11.panic|%s|" % norm_id(c)) and
              set(bad) <= set(e.get("entry_points", [])) and k not in present_keys]
        if not ks:
            return None
        keys.append(ks[0])
    return keys


def run_a(facts, report, config, scope="all"):
    tab = load_table("c11.toml")
    reviewed = {e["key"]: e for e in tab.get("reviewed", [])}
    used = set()
    pol = PanicPolicy()
    eng = flow.Engine(facts, pol)
    events = eng.run_all(collect=True)
    sinks = {}
    sinks_dbg = {}
    for b in facts.fn_bodies():
        if not is_total(b):
            continue
        bid = b["id"]
        in_codec = ("encoding::der" in bid) or ("encoding::rlp" in bid)
        if scope == "codec" and not in_codec:
            continue
        report.count("total_entry_points")
        if doc_panics(b):
            report.count("total_entry_points_with_documented_panics")
        view = eng.view(bid)
        for e in events.get(bid, []):
            if e.kind != "panic":
                continue
            report.count("panic_site_x_entry_pairs")
            labels = set()
            for l in e.labels:
                pi = param_of(l)
                if pi is None or pi > view.argc:
                    continue
                if l.endswith("#len") and not has_dynamic_len(view.locals[pi]):
                    continue   # the length of a fixed-size operand is a constant, not an input
                labels.add(l)
            ps = {param_of(l) for l in labels}
            if not ps:
                continue
            if is_debug_assert(e.info):
                report.count("debug_assert_sites_input_dependent_not_decided")
                dbg = sinks_dbg.setdefault(e.sink, {"info": e.info, "n": 0})
                dbg["n"] += 1
                continue
            # wrapper-invariant: every input label comes from a NonZero / Odd parameter
            tys = {p: view.locals[p] for p in ps if p <= view.argc}
            if tys and all(mir.adt_of_ty(t) in ("non_zero::NonZero", "odd::Odd") for t in tys.values()):
                how = "wrapper-invariant"
            elif all(l.endswith("#len") for l in labels):
                # depends on operand widths / precisions only: the property quantifies over argument
                # values at admissible widths, and admits panics for mismatched boxed precisions
                how = "precision-only"
            else:
                how = None
            sink = e.sink
            rec = sinks.setdefault(sink, {"entries": {}, "info": e.info, "auto": True})
            rec["entries"][norm_id(bid)] = {"labels": sorted(labels)[:8], "how": how,
                                            "doc_panics": doc_panics(b), "via": list(e.via)}
            if how is None and not doc_panics(b):
                rec["auto"] = False
    for sink, rec in sorted(sinks_dbg.items()):
        sbody, skind, sord = sink.rsplit("|", 2)
        report.add(Instance("c11.debug_assert|%s|%s|%s" % (norm_id(sbody), skind, sord), "c11.debug_assert", "info",
                            "internal debug assertion whose condition depends on inputs of %d option/result-returning "
                            "operations: a numerical invariant, not decided here" % rec["n"],
                            rec["info"].get("span"), {"site_body": sbody}), config)
    present_keys = {"c11.panic|%s|%s|%s" % ((lambda a: (norm_id(a[0]), a[1], a[2]))(sk.rsplit("|", 2))) for sk in sinks}
    for sink, rec in sorted(sinks.items()):
        sbody, skind, sord = sink.rsplit("|", 2)
        key = "c11.panic|%s|%s|%s" % (norm_id(sbody), skind, sord)
        info = rec["info"]
        bad = sorted(k for k, v in rec["entries"].items() if v["how"] is None and not v["doc_panics"])
        detail = {"site_body": sbody, "what": info.get("what"), "guards": info.get("guards"),
                  "macros": info.get("macros"),
                  "entry_points": {k: rec["entries"][k] for k in list(rec["entries"])[:12]},
                  "n_entry_points": len(rec["entries"]), "input_dependent_for": bad[:20]}
        site = info.get("span")
        if not bad:
            report.add(Instance(key, "c11.panic", "ok",
                                "auto: input-dependent only through NonZero/Odd parameters (wrapper invariant, "
                                "C12) or in entry points whose documentation states a panic", site, detail), config)
            continue
        e = reviewed.get(key)
        if e is not None:
            used.add(key)
            fp = sorted(bad)
            if sorted(e.get("entry_points", [])) == fp or set(fp) <= set(e.get("entry_points", [])):
                report.add(Instance(key, "c11.panic", "reviewed", "reviewed: " + e["reason"], site, detail), config)
                continue
            detail["expected_entry_points"] = sorted(e.get("entry_points", []))
            report.add(Instance(key, "c11.panic", "violation",
                                "reviewed entry invalidated: new option/result-returning entry point(s) reach "
                                "this input-dependent panic: %s" % sorted(set(fp) - set(e.get("entry_points", []))),
                                site, detail), config)
            continue
        # a panic moved into a private helper that is called only from functions whose own panic sites were reviewed for
        # (at least) these entry points: the argument of those reviews covers it (e.g. the range assertion of Limb::shl /
        # Limb::shr shared through one `assert_shift_in_range`)
        inh = _inherited_review(facts, reviewed, sbody, bad, present_keys)
        if inh:
            for k2 in inh:
                used.add(k2)
            report.add(Instance(key, "c11.panic", "reviewed", "reviewed through its only callers (%s): %s" % (
                ", ".join(sorted(x.split("|")[1] for x in inh)), reviewed[inh[0]]["reason"]), site, detail), config)
            continue
        report.add(Instance(key, "c11.panic", "violation",
                            "explicit panic `%s` is reachable from %d option/result-returning operation(s) under a "
                            "condition that depends on their arguments, e.g. %s" % (info.get("what"), len(bad), bad[0]),
                            site, detail), config)
    for k in reviewed:
        if k not in used and k.startswith("c11.panic"):
            report.stale.append({"table": "c11.toml", "key": k, "config": config})
    return eng
