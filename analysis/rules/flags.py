"""Validity-flag discipline (a clause of C10): the `Choice` / `ConstChoice` flag returned next to a value by an
in-crate fallible primitive (`inv_mod2k -> (x, invertible)`, boxed `overflowing_shl/shr -> (x, overflowed)`, ...)
must reach a real use, or be dropped at a reviewed site. Reviewed drops are keyed by (function, callee, the
parameters the receiver of the dropped call derives from): dropping the flag of `s.inv_mod2k(k)` where `s` is the odd
part of the modulus is reviewed; dropping the flag of `self.inv_mod2k(k)` is a different key."""
from .. import mir
from ..common import Instance, norm_id, load_table
from . import carry, c15

import re

FLAG_TYS = ("subtle::Choice", "const_choice::ConstChoice")
# callees whose trailing Choice is a *validity / overflow* flag (not a sign, a parity or a comparison result)
FLAG_CALLEES = re.compile(r"^(inv_mod2k|inv_odd_mod|inv_mod|overflowing_\w+)(_vartime)?$")


def _origin(view, prov, op):
    ps = set()
    for ch, p in c15._prep_signature(view, prov, op):
        if p:
            ps.add(p)
    return ",".join("_%d" % p for p in sorted(ps)) or "local"


def run(facts, report, config, scope, prefix="c10.flag", counter="validity_flag_calls", table="c10.toml"):
    tab = load_table(table)
    reviewed = {e["key"]: e for e in tab.get("reviewed_flag", [])}
    used = set()
    for b in facts.fn_bodies():
        if not scope(b):
            continue
        view = mir.BodyView(b)
        prov = mir.Provenance(view)
        dropped = {}
        for bi, t in view.calls():
            if view.blocks[bi]["cleanup"] or t["dst"][1] or t["t"] is None:
                continue
            seg = mir.last_seg(mir.callee_decl(t)) or ""
            if carry.CARRY.match(seg) or not FLAG_CALLEES.match(seg):
                continue
            ty = view.locals[t["dst"][0]]
            if not ty.startswith("("):
                continue
            comps = [c.strip() for c in ty[1:-1].split(", ")]
            if comps[-1] not in FLAG_TYS:
                continue
            name = mir.callee_name(t) or ""
            if name.startswith(("core::", "subtle::")):
                continue
            report.count(counter)
            cp = (str(len(comps) - 1),)
            if carry.value_consumed(view, (t["t"], 0), t["dst"][0], cp):
                continue
            org = _origin(view, prov, t["args"][0]) if t["args"] else "local"
            dropped.setdefault("%s|%s|%s|recv=%s" % (prefix, norm_id(b["id"]), seg, org), []).append(t["s"])
        for k0, sites in dropped.items():
            e = reviewed.get(k0)
            allowed = int(e.get("drops", 1)) if e is not None else 0
            if e is not None:
                used.add(k0)
            if len(sites) <= allowed:
                report.add(Instance(k0, prefix, "reviewed", "reviewed (%d dropped, %d reviewed): %s" % (
                    len(sites), allowed, e["reason"]), sites[0], {"body": b["id"], "sites": sites}), config)
            else:
                seg = k0.split("|")[2]
                report.add(Instance(k0, prefix, "violation",
                                    "the validity flag returned by `%s` (receiver derived from %s) is dropped in `%s` at %d "
                                    "site(s), %d reviewed: the caller continues as if the operation had succeeded" % (
                                        seg, k0.rsplit("recv=", 1)[1], b["id"], len(sites), allowed), sites[-1],
                                    {"body": b["id"], "sites": sites}), config)
        if not dropped:
            pass
    for k in reviewed:
        if k not in used:
            report.stale.append({"table": table, "key": k, "config": config})
