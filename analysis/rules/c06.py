"""C06 (one clause) — conditional select / assign / swap / negate return exactly one operand, never a
mixture (DESIGN.md §3 C06).

For every select-like implementation in the crate, with operands A, B and choice C:
  R1 every stored field of the result (returned aggregate, or the `&mut` output of the in-place
     forms) depends on A, B and C;
  R1b field alignment: what field f of the result takes from A (resp. B) comes from A.f (resp. B.f);
  R2 every nested select-like call receives an A-only first operand, a B-only second operand and
     the incoming choice itself (not a negated or recomputed one) as third.
Primitive word selects are the fixed point (their one-line mask arithmetic is a value fact).
"""
import re

from .. import mir, flow
from ..common import Instance, norm_id


def guard_is_debug(view, bb):
    """the abort side of the guard ending block bb is a panic raised from inside `debug_assert*!`
    (for `debug_assert!(cond)` the switch on `cond` itself carries the user's span, not the macro's)"""
    t = view.blocks[bb]["term"]
    if t["k"] != "switch":
        return False
    for sx in set(t["t"]):
        if sx is None or not view.diverges(sx):
            continue
        cur, seen = sx, set()
        while cur is not None and cur not in seen:
            seen.add(cur)
            tt = view.blocks[cur]["term"]
            if any("debug_assert" in m for m in (tt.get("m") or [])):
                return True
            for st in view.blocks[cur]["stmts"]:
                if any("debug_assert" in m for m in (st[4] if len(st) > 4 and isinstance(st[4], list) else [])):
                    return True
            nxt = [x for x in view.succ[cur] if not view.blocks[x]["cleanup"]]
            cur = nxt[0] if len(nxt) == 1 else None
    return False


def _len_params(view, prov, op, depth=0):
    """parameters whose length / precision (possibly scaled by constants) the operand is; None if anything else feeds it"""
    if op[0] == "k":
        return set()
    if depth > 8:
        return None
    out = set()
    roots = mir.uniq_roots(prov.roots_of_operand(op))
    if not roots:
        return None
    for r in roots:
        if r.kind == "const":
            continue
        if r.kind == "call" and r.site is not None:
            t = view.blocks[r.site[0]]["term"]
            seg = mir.last_seg(mir.callee_name(t)) or ""
            if seg in LEN_SEGS and t["args"]:
                ps = {x.what for x in prov.roots_of_operand(t["args"][0]) if x.kind == "param"}
                if not ps:
                    return None
                out |= ps
                continue
            return None
        if r.kind == "op" and r.site is not None and r.site[1] != "term":
            st = view.blocks[r.site[0]]["stmts"][r.site[1]]
            rv = st[2]
            k = rv[0]
            if k == "cast":
                sub = _len_params(view, prov, rv[2], depth + 1)
            elif k == "bin":
                x = _len_params(view, prov, rv[2], depth + 1)
                y = _len_params(view, prov, rv[3], depth + 1)
                sub = None if x is None or y is None else x | y
            elif k == "un" and "PtrMetadata" in str(rv[1]):
                sub = {x.what for x in prov.roots_of_operand(rv[2]) if x.kind == "param"} or None
            elif k == "len":
                sub = {x.what for x in prov.roots_of_place(rv[1]) if x.kind == "param"} or None
            else:
                sub = None
            if sub is None:
                return None
            out |= sub
            continue
        return None
    return out


def _direct_len_relation(view, prov, bb):
    """(pa, pb) when the guard ending block bb compares the size of parameter pa with the size of parameter pb directly"""
    t = view.blocks[bb]["term"]
    if t["k"] != "switch" or t["op"][0] not in ("c", "m"):
        return None
    cur = t["op"][1][0]
    for _ in range(6):
        found = None
        for st in reversed(view.blocks[bb]["stmts"]):
            if st[0] == "a" and st[1][0] == cur and not st[1][1]:
                found = st[2]
                break
        if found is None:
            return None
        if found[0] == "bin" and found[1] in ("Eq", "Ne", "Lt", "Le", "Gt", "Ge"):
            a = _len_params(view, prov, found[2])
            b = _len_params(view, prov, found[3])
            if a and b and len(a) == 1 and len(b) == 1 and a != b:
                return (next(iter(a)), next(iter(b)))
            return None
        if found[0] == "un" and found[2][0] in ("c", "m"):
            cur = found[2][1][0]
        elif found[0] == "use" and found[1][0] in ("c", "m"):
            cur = found[1][1][0]
        else:
            return None
    return None


def _release_pairs(eng, cb, memo, facts=None, depth=0):
    """pairs of parameter indices of body cb whose sizes are related by a release-mode abort guard of cb itself"""
    from .c11 import is_debug_assert
    mk = (getattr(facts, "config", None), cb["id"])
    if mk in memo:
        return memo[mk]
    memo[mk] = set()
    view = eng.view(cb["id"])
    dyn = {i for i in range(1, view.argc + 1) if _is_dyn(view.locals[i])}
    out = set()
    lprov = IterProv(view)
    if len(dyn) >= 2:
        summ, evs = eng.analyze(cb["id"], collect=True)
        for e in evs:
            if e.kind != "branch" or e.via or not view.abort_guard(e.bb[0]):
                continue
            if is_debug_assert(e.info) or guard_is_debug(view, e.bb[0]):
                continue
            # only a guard that compares the two sizes with each other protects the caller (an assertion such as
            # `out.len() == a.len() + b.len()` mentions both lengths without relating them)
            rel = _direct_len_relation(view, lprov, e.bb[0])
            if rel and rel[0] in dyn and rel[1] in dyn:
                out.add((min(rel), max(rel)))
    # guards of the functions cb itself calls (a shared `assert_fits(&self, rhs)` helper), mapped back to cb's parameters
    if facts is not None and depth < 3:
        prov = IterProv(view)
        for bi, t in view.calls():
            if view.blocks[bi]["cleanup"]:
                continue
            res = t["f"].get("res")
            cc = facts.bodies.get(res) if res else None
            if cc is None or cc["id"] == cb["id"]:
                continue
            inner = _release_pairs(eng, cc, memo, facts, depth + 1)
            if not inner:
                continue
            roots = [{r.what for r in prov.roots_of_operand(a) if r.kind == "param"} & dyn for a in t["args"]]
            for (i, j) in inner:
                if i - 1 < len(roots) and j - 1 < len(roots):
                    for x in roots[i - 1]:
                        for y in roots[j - 1]:
                            if x != y:
                                out.add((min(x, y), max(x, y)))
    memo[mk] = out
    return out


def _callee_release_guards(facts, eng, view, dyn, _memo={}):
    """call sites (depth 1) that hand two different heap-allocated parameters to an in-crate callee which itself aborts, in
    release builds, on a relation between exactly those two arguments' sizes"""
    prov = IterProv(view)
    found = []
    for bi, t in view.calls():
        if view.blocks[bi]["cleanup"]:
            continue
        res = t["f"].get("res")
        cb = facts.bodies.get(res) if res else None
        if cb is None:
            continue
        pairs = _release_pairs(eng, cb, _memo, facts, 0)
        if not pairs:
            continue
        roots = []
        for a in t["args"]:
            roots.append({r.what for r in prov.roots_of_operand(a) if r.kind == "param"} & dyn)
        for (i, j) in pairs:
            if i - 1 < len(roots) and j - 1 < len(roots) and roots[i - 1] and roots[j - 1] and roots[i - 1] != roots[j - 1]:
                found.append(t["s"])
    return found

SELECT_NAMES = {"conditional_select", "ct_select", "select", "ct_assign", "ct_swap", "conditional_assign",
                "conditional_swap", "select_word", "select_u32", "select_u64", "select_wide_word",
                "select_usize", "select_i64", "conditional_negate", "wrapping_neg_if", "ct_select_limb"}
CHOICE_TYS = ("subtle::Choice", "const_choice::ConstChoice")
INPLACE = {"ct_assign", "conditional_assign", "ct_swap", "conditional_swap", "conditional_negate"}


def _is_choice(ty):
    return mir.peel_refs(ty) in CHOICE_TYS


def _fields_of(facts, ty):
    adt = mir.adt_of_ty(ty)
    a = facts.adts.get(adt or "")
    if not a or a["kind"] != "Struct":
        return None
    out = []
    for f in a["variants"][0]["fields"]:
        if "PhantomData" in f["ty"]:
            continue
        out.append(f["name"])
    return out


def _params_of(labels):
    ps = set()
    for l in labels:
        if l.startswith("@"):
            m = re.match(r"@(\d+)", l)
            ps.add(int(m.group(1)))
    return ps


def run(facts, report, config):
    eng = flow.Engine(facts, flow.Policy())
    eng.run_all(collect=False)
    run_zip(facts, report, config, eng)
    run_hash(facts, report, config, eng)
    run_debug_width(facts, report, config, eng)
    run_onesided(facts, report, config, eng)
    for b in facts.fn_bodies():
        if b["kind"] == "Closure" or b.get("name") not in SELECT_NAMES:
            continue
        view = eng.view(b["id"])
        tys = [view.locals[i] for i in range(1, view.argc + 1)]
        cidx = [i + 1 for i, t in enumerate(tys) if _is_choice(t)]
        oidx = [i + 1 for i, t in enumerate(tys) if not _is_choice(t)]
        name = b["name"]
        if len(cidx) != 1 or not oidx:
            if name == "select" and not cidx:
                continue  # an unrelated `select`
            report.add(Instance("c06.shape|%s" % norm_id(b["id"]), "c06.shape", "info",
                                "select-like name but not (operands.., one choice): not judged", b["span"],
                                {"params": tys}), config)
            continue
        C = cidx[0]
        A = oidx[0]
        B = oidx[1] if len(oidx) > 1 else None
        report.count("select_like_bodies")
        key = "c06.select|%s" % norm_id(b["id"])
        summ = eng.summaries.get(b["id"])
        problems = []
        detail = {"body": b["id"], "roles": {"A": A, "B": B, "C": C}}
        need = {A, C} | ({B} if B else set())

        def check_value(val, ty, what, need_set, self_param=None):
            fields = _fields_of(facts, ty)
            if not fields:
                have = _params_of(flow.v_flat(val))
                if self_param:
                    have.add(self_param)
                miss = need_set - have
                if miss:
                    problems.append("%s does not depend on operand(s) %s" % (what, sorted(miss)))
                return
            for f in fields:
                ls = flow.v_read(val, (f,))
                have = _params_of(ls)
                if self_param:
                    have.add(self_param)
                miss = need_set - have
                if miss:
                    problems.append("field `%s` of %s does not depend on operand(s) %s (a mixture of operands "
                                    "is returned for one choice value)" % (f, what, sorted(miss)))
                # alignment
                for l in ls:
                    m = re.match(r"@(\d+)\.([A-Za-z0-9_]+)", l)
                    if m and int(m.group(1)) in (A, B) and m.group(2) != f and \
                            m.group(2) in fields:
                        problems.append("field `%s` of %s takes data from field `%s` of operand _%s" % (
                            f, what, m.group(2), m.group(1)))

        if name in INPLACE:
            outs = summ.outs if summ else {}
            if name in ("ct_swap", "conditional_swap") and B:
                for (o, other) in ((A, B), (B, A)):
                    v = outs.get(o)
                    if v is None:
                        problems.append("operand _%d is never written" % o)
                    else:
                        check_value(v, tys[o - 1], "output _%d" % o, {other, C}, self_param=o)
            else:
                v = outs.get(A)
                if v is None:
                    problems.append("output operand _%d is never written" % A)
                else:
                    check_value(v, tys[A - 1], "output _%d" % A, need - {A}, self_param=A)
        else:
            check_value(summ.ret if summ else flow.Val(), b.get("sig_out") or "", "the result", need)

        # R2 nested select-like calls
        prov = mir.Provenance(view)
        nested = 0
        for bi, t in view.calls():
            if view.blocks[bi]["cleanup"]:
                continue
            cn = mir.callee_name(t)
            seg = mir.last_seg(cn)
            dseg = mir.last_seg(mir.callee_decl(t))
            if seg not in SELECT_NAMES and dseg not in SELECT_NAMES:
                continue
            args = t["args"]
            atys = []
            for a in args:
                atys.append(view.locals[a[1][0]] if a[0] in ("c", "m") else a[1])
            # roles at the callee by type
            cpos = [i for i, a in enumerate(args) if _is_choice(_op_ty(view, a))]
            opos = [i for i in range(len(args)) if i not in cpos]
            if len(cpos) != 1 or not opos:
                continue
            nested += 1
            st = eng.last_states if False else None
            expect = [A, B] if B else [A]
            got = []
            pure = True
            for j, pos in enumerate(opos[:len(expect)]):
                roots = mir.uniq_roots(prov.roots_of_operand(args[pos]))
                ps = {r.what for r in roots if r.kind == "param"}
                nonparam = [r for r in roots if r.kind not in ("param", "multi")]
                if not ps or nonparam or len(ps) != 1:
                    pure = False
                got.append(sorted(ps))
            # the choice: the incoming one, or its negation
            negated = None
            croots = mir.uniq_roots(prov.roots_of_operand(args[cpos[0]]))
            if len(croots) == 1 and croots[0].kind == "param" and croots[0].what == C and not croots[0].path:
                negated = False
            elif len(croots) == 1 and croots[0].kind == "call" and mir.last_seg(croots[0].what) == "not":
                nt = view.blocks[croots[0].site[0]]["term"]
                r2 = mir.uniq_roots(prov.roots_of_operand(nt["args"][0])) if nt["args"] else []
                if len(r2) == 1 and r2[0].kind == "param" and r2[0].what == C and not r2[0].path:
                    negated = True
            if negated is None:
                problems.append("nested %s: its choice is %s, neither the incoming choice _%d nor its negation" % (
                    seg, [repr(r) for r in croots], C))
            if pure:
                flat = [g[0] for g in got]
                straight = flat == expect[:len(flat)]
                swapped = len(flat) == 2 and flat == [expect[1], expect[0]]
                if name in ("ct_swap", "conditional_swap") and len(flat) == 2:
                    ok = (straight or swapped) and negated is False
                elif negated:
                    ok = swapped          # select(b, a, !c) == select(a, b, c)
                else:
                    ok = straight
                if not ok and negated is not None:
                    problems.append("nested %s: operands come from parameters %s with %s choice, expected %s "
                                    "(operands swapped, duplicated or choice inverted)" % (
                                        seg, flat, "negated" if negated else "the incoming", expect[:len(flat)]))
        detail["nested_select_calls"] = nested
        if problems:
            report.add(Instance(key, "c06.select", "violation", "; ".join(sorted(set(problems))), b["span"],
                                dict(detail, problems=sorted(set(problems)))), config)
        else:
            report.add(Instance(key, "c06.select", "ok",
                                "auto: every stored field depends on both operands and the choice; %d nested "
                                "selects keep operand roles" % nested, b["span"], detail), config)


def _op_ty(view, a):
    if a[0] in ("c", "m"):
        l, proj = a[1]
        if not proj:
            return view.locals[l]
        return ""
    return a[1]


# ---------------------------------------------------------------------------------------------
# Comparison of boxed operands of different precision must zero-pad, not truncate.

PRED_RET = ("subtle::Choice", "bool", "const_choice::ConstChoice", "core::cmp::Ordering",
            "core::option::Option<core::cmp::Ordering>")
ITER_VP = {"iter", "iter_mut", "into_iter", "rev", "copied", "cloned", "as_limbs", "as_ref", "deref", "as_slice",
           "as_words", "borrow", "clone", "enumerate", "map"}


class IterProv(mir.Provenance):
    def is_vp(self, term):
        if super().is_vp(term):
            return True
        return mir.last_seg(mir.callee_decl(term)) in ITER_VP and len(term["args"]) >= 1


def _cond_binop(view, bb):
    """operator of the comparison that decides the SwitchInt ending block bb (through copies and `!`)"""
    t = view.blocks[bb]["term"]
    if t["k"] != "switch" or t["op"][0] not in ("c", "m"):
        return None
    cur = t["op"][1][0]
    for _ in range(6):
        found = None
        for s in reversed(view.blocks[bb]["stmts"]):
            if s[0] == "a" and s[1][0] == cur and not s[1][1]:
                found = s[2]
                break
        if found is None:
            return None
        if found[0] == "bin":
            return found[1]
        if found[0] == "un" and found[2][0] in ("c", "m"):
            cur = found[2][1][0]
        elif found[0] == "use" and found[1][0] in ("c", "m"):
            cur = found[1][1][0]
        else:
            return None
    return None


def _is_dyn(ty):
    return "uint::boxed::BoxedUint" in ty or "[limb::Limb]" in ty or "[Limb]" in ty


def run_zip(facts, report, config, eng=None, scope=None, prefix="c06.zip", counter="boxed_binary_predicates",
            require_eq=False, what="predicate"):
    """In a function over two heap-allocated operands, `zip` of their limb iterators silently stops at
    the shorter one. Such a zip is accepted only when the function also aborts on a length mismatch
    (for arithmetic: on *unequal* lengths — `>=` is not enough, the chain must run over the longer operand)."""
    zips_seen = 0
    for b in facts.fn_bodies():
        view = mir.BodyView(b)
        has_zip = False
        for bi, t in view.calls():
            if mir.last_seg(mir.callee_decl(t)) == "zip" and not view.blocks[bi]["cleanup"]:
                has_zip = True
        if has_zip:
            zips_seen += 1
        if b["kind"] == "Closure":
            continue
        so = b.get("sig_out") or ""
        dyn = [i for i in range(1, view.argc + 1) if _is_dyn(view.locals[i])]
        if len(dyn) < 2:
            continue
        if scope is None:
            if so not in PRED_RET:
                continue
        elif not scope(b, view):
            continue
        report.count(counter)
        key = "%s|%s" % (prefix, norm_id(b["id"]))
        prov = IterProv(view)
        bad = None
        for bi, t in view.calls():
            if view.blocks[bi]["cleanup"] or mir.last_seg(mir.callee_decl(t)) != "zip" or len(t["args"]) < 2:
                continue
            pa = {r.what for r in prov.roots_of_operand(t["args"][0]) if r.kind == "param"}
            pb = {r.what for r in prov.roots_of_operand(t["args"][1]) if r.kind == "param"}
            if pa and pb and pa != pb and (pa | pb) <= set(dyn):
                bad = (t["s"], sorted(pa), sorted(pb))
        if bad is None:
            report.add(Instance(key, prefix, "ok", "auto: no truncating zip over the limbs of two operands",
                                b["span"], {"body": b["id"]}), config)
            continue
        # a length comparison between the two operands?
        guarded = False
        if eng is not None:
            summ, evs = eng.analyze(b["id"], collect=True)
            for e in evs:
                # the loop's own exit test depends on both lengths (zip stops at the shorter) and does not count:
                # only an assertion that aborts on a length mismatch does
                if e.kind == "branch" and not e.via and view.abort_guard(e.bb[0]):
                    if any(l == "@%d#len" % bad[1][0] for l in e.labels) and any(l == "@%d#len" % bad[2][0] for l in e.labels):
                        if not require_eq or _cond_binop(view, e.bb[0]) in ("Eq", "Ne"):
                            guarded = True
        if guarded:
            report.add(Instance(key, prefix, "ok", "auto: zip over both operands' limbs, with an assertion comparing "
                                "their lengths", bad[0], {"body": b["id"]}), config)
        else:
            report.add(Instance(key, prefix, "violation",
                                "%s `%s` zips the limbs of operands _%s and _%s: iteration stops at the shorter "
                                "operand, so for operands of different precision the limbs of the longer one beyond that "
                                "point are %s (the shorter operand must be zero-padded)" % (
                                    what, b.get("name"), bad[1], bad[2],
                                    "never visited and the carry/borrow chain stops early" if require_eq else
                                    "dropped from the result, while the sibling forms of the operation zero-extend"
                                    if what == "operation" else
                                    "ignored: values differing only there are treated as equal"),
                                bad[0], {"body": b["id"]}), config)
    report.counters["zip_call_bodies_positive_control"] = report.counters.get("zip_call_bodies_positive_control", 0) + zips_seen


# ---------------------------------------------------------------------------------------------
# Hash / Eq coherence: "values that compare equal hash equally".

LEN_SEGS = {"len", "nlimbs", "bits_precision", "bytes_precision"}
DYN_FIELD = ("alloc::boxed::Box<[", "alloc::vec::Vec<", "[")
EQ_SEGS = {"eq", "ne", "ct_eq", "ct_ne"}


def _dyn_fields(facts, adt):
    a = facts.adts.get(adt or "")
    if not a or a["kind"] != "Struct":
        return None, []
    fs = [f for f in a["variants"][0]["fields"] if "PhantomData" not in f["ty"]]
    return fs, [f["name"] for f in fs if f["ty"].startswith(DYN_FIELD) and ";" not in f["ty"]]


def _len_of_param(view, prov, op, depth=0):
    """parameter index if `op` is purely the length / precision of one parameter, else None"""
    ps = set()
    for r in mir.uniq_roots(prov.roots_of_operand(op)):
        if r.kind == "call" and r.site is not None and depth < 3:
            t = view.blocks[r.site[0]]["term"]
            seg = mir.last_seg(mir.callee_name(t)) or ""
            if seg in LEN_SEGS and t["args"]:
                for r2 in mir.uniq_roots(prov.roots_of_operand(t["args"][0])):
                    if r2.kind == "param":
                        ps.add(r2.what)
                    else:
                        return None
                continue
            return None
        elif r.kind == "op" and "PtrMetadata" in str(r.what):
            return None if depth else None
        else:
            return None
    return list(ps)[0] if len(ps) == 1 else None


def _length_strict(eng, bid, depth=0, seen=None):
    """Does the equality reached from body `bid` compare the two operands' lengths for equality?"""
    seen = seen if seen is not None else set()
    if bid in seen or depth > 2:
        return False
    seen.add(bid)
    view = eng.view(bid)
    prov = IterProv(view)
    for bb in view.blocks:
        if bb["cleanup"]:
            continue
        for s in bb["stmts"]:
            if s[0] == "a" and s[2][0] == "bin" and s[2][1] in ("Eq", "Ne"):
                a, b = _len_of_param(view, prov, s[2][2]), _len_of_param(view, prov, s[2][3])
                if a and b and a != b:
                    return True
        t = bb["term"]
        if t["k"] == "call":
            seg = mir.last_seg(mir.callee_decl(t)) or ""
            if seg in EQ_SEGS and len(t["args"]) >= 2:
                a, b = _len_of_param(view, prov, t["args"][0]), _len_of_param(view, prov, t["args"][1])
                if a and b and a != b:
                    return True
            if seg in EQ_SEGS or seg in ("into", "from"):
                for cid in eng.callee_ids(t):
                    if _length_strict(eng, cid, depth + 1, seen):
                        return True
    return False



ELEMENT_ACCESS = {"get", "get_unchecked", "index", "deref", "as_ref", "as_limbs", "as_words", "borrow"}


def run_onesided(facts, report, config, eng, prefix="c06.onesided"):
    """A predicate over two heap-allocated operands whose every loop is bounded by the length of ONE operand, while the
    other operand is only ever touched element by element (`get(i)`, indexing), never traversed, measured or handed to
    another routine, cannot see the limbs of the second operand beyond the first one's length: two values that differ
    only there compare as if equal / ordered by the shared prefix.  (The crate's own idiom bounds such loops by
    `max(a.len(), b.len())` or delegates to `sbb`, both of which involve the second operand's length.)"""
    for b in facts.fn_bodies():
        if b["kind"] == "Closure" or (b.get("sig_out") or "") not in PRED_RET or b.get("vis") == "restricted":
            continue
        view = eng.view(b["id"])
        dyn = [i for i in range(1, view.argc + 1) if _is_dyn(view.locals[i])]
        if len(dyn) != 2 or any(view.locals[i].startswith("&mut") for i in dyn):
            continue
        summ, evs = eng.analyze(b["id"], collect=True)
        # loop-exit branches: a switch inside a cycle with a successor that leaves the cycle
        lens = set()
        loops = 0
        guard = False
        for e in evs:
            if e.kind != "branch" or e.via:
                continue
            bi = e.bb[0]
            ls = {int(l[1:].split("#")[0]) for l in e.labels if l.startswith("@") and l.endswith("#len")}
            if view.abort_guard(bi):
                if len(ls & set(dyn)) == 2:
                    guard = True
                continue
            t = view.blocks[bi]["term"]
            if t["k"] != "switch":
                continue
            succs = set(x for x in t["t"] if x is not None)
            in_cycle = any(view.can_reach(sx, bi) for sx in succs)
            leaves = any(not view.can_reach(sx, bi) for sx in succs)
            if in_cycle and leaves:
                loops += 1
                lens |= ls & set(dyn)
        key = "%s|%s" % (prefix, norm_id(b["id"]))
        if not loops or len(lens) != 1 or guard:
            continue
        pa = next(iter(lens))
        pb = [i for i in dyn if i != pa][0]
        # how is the other operand touched?
        prov = IterProv(view)
        only_elements = True
        touched = False
        for bi, t in view.calls():
            if view.blocks[bi]["cleanup"]:
                continue
            seg = mir.last_seg(mir.callee_decl(t)) or ""
            for a in t["args"]:
                if a[0] == "k":
                    continue
                if not mir.is_ptr_ty(view.locals[a[1][0]]) and not _is_dyn(view.locals[a[1][0]]):
                    continue
                if pb in {r.what for r in prov.roots_of_operand(a) if r.kind == "param"}:
                    touched = True
                    if seg not in ELEMENT_ACCESS:
                        only_elements = False
        report.count("one_sided_loop_predicates")
        if touched and only_elements:
            report.add(Instance(key, prefix, "violation",
                                "every loop of predicate `%s` is bounded by the length of operand _%d alone, and operand _%d is "
                                "only read element by element: its limbs beyond the other operand's length are never looked at, "
                                "so operands of different precision that differ only there are mis-compared" % (
                                    b.get("name"), pa, pb), b["span"], {"body": b["id"]}), config)
        else:
            report.add(Instance(key, prefix, "ok", "auto: the other operand is traversed / measured / delegated as a whole",
                                b["span"], {"body": b["id"]}), config)


def run_hash(facts, report, config, eng):
    eqs = {}
    for b in facts.fn_bodies():
        if b.get("name") == "eq" and b.get("impl_trait") == "core::cmp::PartialEq":
            st = b.get("impl_self") or ""
            # only T == T
            view = eng.view(b["id"])
            if view.argc == 2 and mir.peel_refs(view.locals[1]) == mir.peel_refs(view.locals[2]):
                eqs[mir.adt_of_ty(st)] = b
    for imp in facts.impls:
        if imp.get("trait") != "core::hash::Hash":
            continue
        adt = mir.adt_of_ty(imp["self"])
        key = "c06.hash|%s" % norm_id(adt or imp["self"])
        report.count("hash_impls")
        eq = eqs.get(adt)
        if eq is None:
            report.add(Instance(key, "c06.hash", "info", "Hash without an in-crate PartialEq: nothing to compare", imp["span"], {}), config)
            continue
        if not imp.get("derived"):
            report.add(Instance(key, "c06.hash", "info", "hand-written Hash: coherence with Eq is a value fact, not decided",
                                imp["span"], {}), config)
            continue
        if eq.get("derived"):
            report.add(Instance(key, "c06.hash", "ok", "auto: Hash and PartialEq are both derived over the same fields",
                                imp["span"], {}), config)
            continue
        fields, dyn = _dyn_fields(facts, adt)
        if fields is None:
            report.add(Instance(key, "c06.hash", "info", "not a struct: not judged", imp["span"], {}), config)
            continue
        summ = eng.summaries.get(eq["id"])
        labels = flow.v_flat(summ.ret) if summ else frozenset()
        problems = []
        for f in fields:
            for p in (1, 2):
                pre = "@%d.%s" % (p, f["name"])
                if not any(l == pre or l.startswith(pre + ".") or l.startswith(pre + "#") for l in labels) and \
                        not any(l == "@%d" % p for l in labels):
                    problems.append("derived Hash feeds field `%s`, but `==` does not depend on it for operand _%d: values "
                                    "differing only in that field compare equal and hash differently" % (
                                        f["name"], p))
        if dyn and not _length_strict(eng, eq["id"]):
            problems.append("derived Hash feeds the length and every element of the dynamically sized field `%s`, but `==` "
                            "does not require equal lengths (it compares across precisions): two values that compare "
                            "equal with different lengths hash differently" % dyn[0])
        if problems:
            report.add(Instance(key, "c06.hash", "violation", "; ".join(problems), imp["span"],
                                {"eq": eq["id"], "dynamic_fields": dyn}), config)
        else:
            report.add(Instance(key, "c06.hash", "ok",
                                "auto: hand-written `==` depends on every field the derived Hash feeds%s" % (
                                    " and requires equal lengths" if dyn else ""), imp["span"], {"eq": eq["id"]}), config)


# ---------------------------------------------------------------------------------------------
# A predicate over two heap-allocated operands must not rely on a debug-only assertion about their lengths.

SELECT_NAMES = {"ct_select", "ct_assign", "ct_swap", "conditional_select", "conditional_assign", "conditional_swap",
                "select", "swap"}


def run_debug_width(facts, report, config, eng, select=None, prefix="c06.dbgwidth", counter=None, reviewed=None,
                    effect=None, len_vs_any=False):
    """`debug_assert_eq!(a.len(), b.len())` followed by a loop over one operand's length is a stated belief that is
    checked in debug builds only: in the optimized build a longer second operand is silently truncated (and a
    shorter one indexes out of bounds). Accepted: a release-mode guard relating both lengths, or none at all (then the
    routine treats both lengths itself: zero-padding, max).

    Default scope (C06): predicates and select-like routines over two heap-allocated operands. Other properties pass
    `select` (a body filter) and a `reviewed` map key -> reason for routines that were read and found to behave in the
    optimized build (the assertion is stricter than the code needs)."""
    from .c11 import is_debug_assert
    reviewed = reviewed or {}
    for b in facts.fn_bodies():
        if b["kind"] == "Closure":
            continue
        view = eng.view(b["id"])
        so = b.get("sig_out") or ""
        dyn = [i for i in range(1, view.argc + 1) if _is_dyn(view.locals[i])]
        if len(dyn) < (1 if len_vs_any else 2) or view.argc < 2:
            continue
        if select is None:
            if so not in PRED_RET and (b.get("name") or "") not in SELECT_NAMES:
                continue
            if b.get("vis") == "restricted":
                continue        # crate-internal helper: its callers own the precondition
        elif not select(b):
            continue
        if counter:
            report.count(counter)
        summ, evs = eng.analyze(b["id"], collect=True)
        dbg, rel = [], []
        for e in evs:
            if e.kind != "branch" or e.via or not view.abort_guard(e.bb[0]):
                continue
            ps = {int(l[1:].split("#")[0].split(".")[0]) for l in e.labels if l.startswith("@")}
            if len_vs_any:
                # the size of one heap-allocated operand against anything derived from another parameter
                lens = {int(l[1:].split("#")[0]) for l in e.labels if l.startswith("@") and l.endswith("#len")}
                if not (lens & set(dyn)) or len(ps) < 2:
                    continue
            elif len(ps & set(dyn)) < 2:
                continue
            (dbg if (is_debug_assert(e.info) or guard_is_debug(view, e.bb[0])) else rel).append(e.info.get("span"))
        if dbg and not rel and not len_vs_any:
            rel += _callee_release_guards(facts, eng, view, set(dyn))
        key = "%s|%s" % (prefix, norm_id(b["id"]))
        if dbg and not rel and key in reviewed:
            report.add(Instance(key, prefix, "reviewed", "reviewed: " + reviewed[key], b["span"], {"body": b["id"]}), config)
        elif dbg and not rel:
            report.add(Instance(key, prefix, "violation",
                                "`%s` relates the sizes of its two operands only in a debug assertion: in the optimized build "
                                "%s" % (b.get("name"), effect or
                                        "operands of different precision are processed limb by limb over one operand's "
                                        "length — the excess limbs of the other are ignored (or indexed out of bounds), so "
                                        "the answer is a truncation / mixture that the debug profile would have trapped"),
                                b["span"], {"body": b["id"]}), config)
        else:
            report.add(Instance(key, prefix, "ok",
                                "auto: %s" % ("a release-mode guard relates the two lengths" if rel else
                                              "no length assertion to rely on (both lengths are handled by the routine itself)"),
                                b["span"], {"body": b["id"]}), config)
