"""C06 (one clause) — conditional select / assign / swap / negate return exactly one operand, never a
mixture (DESIGN.md §3 C06).

For every select-like implementation in the crate, with operands A, B and choice C:
  R1 every stored field of the result (returned aggregate, or the `&mut` output of the in-place
     forms) depends on A, B and C;
  R1b field alignment: what field f of the result takes from A (resp. B) comes from A.f (resp. B.f);
  R2 every nested select-like call receives an A-only first operand, a B-only second operand and
     the incoming choice itself (not a negated or recomputed one) as third.
Primitive word selects are the fixed point (their one-line mask arithmetic is a value fact).
"""
import re

from .. import mir, flow
from ..common import Instance, norm_id

SELECT_NAMES = {"conditional_select", "ct_select", "select", "ct_assign", "ct_swap", "conditional_assign",
                "conditional_swap", "select_word", "select_u32", "select_u64", "select_wide_word",
                "select_usize", "select_i64", "conditional_negate", "wrapping_neg_if", "ct_select_limb"}
CHOICE_TYS = ("subtle::Choice", "const_choice::ConstChoice")
INPLACE = {"ct_assign", "conditional_assign", "ct_swap", "conditional_swap", "conditional_negate"}


def _is_choice(ty):
    return mir.peel_refs(ty) in CHOICE_TYS


def _fields_of(facts, ty):
    adt = mir.adt_of_ty(ty)
    a = facts.adts.get(adt or "")
    if not a or a["kind"] != "Struct":
        return None
    out = []
    for f in a["variants"][0]["fields"]:
        if "PhantomData" in f["ty"]:
            continue
        out.append(f["name"])
    return out


def _params_of(labels):
    ps = set()
    for l in labels:
        if l.startswith("@"):
            m = re.match(r"@(\d+)", l)
            ps.add(int(m.group(1)))
    return ps


def run(facts, report, config):
    eng = flow.Engine(facts, flow.Policy())
    eng.run_all(collect=False)
    for b in facts.fn_bodies():
        if b["kind"] == "Closure" or b.get("name") not in SELECT_NAMES:
            continue
        view = eng.view(b["id"])
        tys = [view.locals[i] for i in range(1, view.argc + 1)]
        cidx = [i + 1 for i, t in enumerate(tys) if _is_choice(t)]
        oidx = [i + 1 for i, t in enumerate(tys) if not _is_choice(t)]
        name = b["name"]
        if len(cidx) != 1 or not oidx:
            if name == "select" and not cidx:
                continue  # an unrelated `select`
            report.add(Instance("c06.shape|%s" % norm_id(b["id"]), "c06.shape", "info",
                                "select-like name but not (operands.., one choice): not judged", b["span"],
                                {"params": tys}), config)
            continue
        C = cidx[0]
        A = oidx[0]
        B = oidx[1] if len(oidx) > 1 else None
        report.count("select_like_bodies")
        key = "c06.select|%s" % norm_id(b["id"])
        summ = eng.summaries.get(b["id"])
        problems = []
        detail = {"body": b["id"], "roles": {"A": A, "B": B, "C": C}}
        need = {A, C} | ({B} if B else set())

        def check_value(val, ty, what, need_set, self_param=None):
            fields = _fields_of(facts, ty)
            if not fields:
                have = _params_of(flow.v_flat(val))
                if self_param:
                    have.add(self_param)
                miss = need_set - have
                if miss:
                    problems.append("%s does not depend on operand(s) %s" % (what, sorted(miss)))
                return
            for f in fields:
                ls = flow.v_read(val, (f,))
                have = _params_of(ls)
                if self_param:
                    have.add(self_param)
                miss = need_set - have
                if miss:
                    problems.append("field `%s` of %s does not depend on operand(s) %s (a mixture of operands "
                                    "is returned for one choice value)" % (f, what, sorted(miss)))
                # alignment
                for l in ls:
                    m = re.match(r"@(\d+)\.([A-Za-z0-9_]+)", l)
                    if m and int(m.group(1)) in (A, B) and m.group(2) != f and \
                            m.group(2) in fields:
                        problems.append("field `%s` of %s takes data from field `%s` of operand _%s" % (
                            f, what, m.group(2), m.group(1)))

        if name in INPLACE:
            outs = summ.outs if summ else {}
            if name in ("ct_swap", "conditional_swap") and B:
                for (o, other) in ((A, B), (B, A)):
                    v = outs.get(o)
                    if v is None:
                        problems.append("operand _%d is never written" % o)
                    else:
                        check_value(v, tys[o - 1], "output _%d" % o, {other, C}, self_param=o)
            else:
                v = outs.get(A)
                if v is None:
                    problems.append("output operand _%d is never written" % A)
                else:
                    check_value(v, tys[A - 1], "output _%d" % A, need - {A}, self_param=A)
        else:
            check_value(summ.ret if summ else flow.Val(), b.get("sig_out") or "", "the result", need)

        # R2 nested select-like calls
        prov = mir.Provenance(view)
        nested = 0
        for bi, t in view.calls():
            if view.blocks[bi]["cleanup"]:
                continue
            cn = mir.callee_name(t)
            seg = mir.last_seg(cn)
            dseg = mir.last_seg(mir.callee_decl(t))
            if seg not in SELECT_NAMES and dseg not in SELECT_NAMES:
                continue
            args = t["args"]
            atys = []
            for a in args:
                atys.append(view.locals[a[1][0]] if a[0] in ("c", "m") else a[1])
            # roles at the callee by type
            cpos = [i for i, a in enumerate(args) if _is_choice(_op_ty(view, a))]
            opos = [i for i in range(len(args)) if i not in cpos]
            if len(cpos) != 1 or not opos:
                continue
            nested += 1
            st = eng.last_states if False else None
            expect = [A, B] if B else [A]
            got = []
            pure = True
            for j, pos in enumerate(opos[:len(expect)]):
                roots = mir.uniq_roots(prov.roots_of_operand(args[pos]))
                ps = {r.what for r in roots if r.kind == "param"}
                nonparam = [r for r in roots if r.kind not in ("param", "multi")]
                if not ps or nonparam or len(ps) != 1:
                    pure = False
                got.append(sorted(ps))
            # the choice: the incoming one, or its negation
            negated = None
            croots = mir.uniq_roots(prov.roots_of_operand(args[cpos[0]]))
            if len(croots) == 1 and croots[0].kind == "param" and croots[0].what == C and not croots[0].path:
                negated = False
            elif len(croots) == 1 and croots[0].kind == "call" and mir.last_seg(croots[0].what) == "not":
                nt = view.blocks[croots[0].site[0]]["term"]
                r2 = mir.uniq_roots(prov.roots_of_operand(nt["args"][0])) if nt["args"] else []
                if len(r2) == 1 and r2[0].kind == "param" and r2[0].what == C and not r2[0].path:
                    negated = True
            if negated is None:
                problems.append("nested %s: its choice is %s, neither the incoming choice _%d nor its negation" % (
                    seg, [repr(r) for r in croots], C))
            if pure:
                flat = [g[0] for g in got]
                straight = flat == expect[:len(flat)]
                swapped = len(flat) == 2 and flat == [expect[1], expect[0]]
                if name in ("ct_swap", "conditional_swap") and len(flat) == 2:
                    ok = (straight or swapped) and negated is False
                elif negated:
                    ok = swapped          # select(b, a, !c) == select(a, b, c)
                else:
                    ok = straight
                if not ok and negated is not None:
                    problems.append("nested %s: operands come from parameters %s with %s choice, expected %s "
                                    "(operands swapped, duplicated or choice inverted)" % (
                                        seg, flat, "negated" if negated else "the incoming", expect[:len(flat)]))
        detail["nested_select_calls"] = nested
        if problems:
            report.add(Instance(key, "c06.select", "violation", "; ".join(sorted(set(problems))), b["span"],
                                dict(detail, problems=sorted(set(problems)))), config)
        else:
            report.add(Instance(key, "c06.select", "ok",
                                "auto: every stored field depends on both operands and the choice; %d nested "
                                "selects keep operand roles" % nested, b["span"], detail), config)


def _op_ty(view, a):
    if a[0] in ("c", "m"):
        l, proj = a[1]
        if not proj:
            return view.locals[l]
        return ""
    return a[1]
