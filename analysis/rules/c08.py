"""C08 / C09 — stored Montgomery representatives are canonical (DESIGN.md §3 C08/C09).

(a) who-may-write: every value stored into the `montgomery_form` field of MontyForm / ConstMontyForm /
    BoxedMontyForm (aggregate construction, field store, `&mut` hand-out) comes from a *reducing*
    producer (table), from another form's representative, from a select of two such values, from a
    reduced constant/parameter field, or is the parameter of a documented raw API.
(b) reduction-level typestate for the boxed almost-Montgomery routines: with f(x) = floor(x/m),
      AMM(x, y)  -> min(f(x), f(y)) + 1      AMM(x, x) -> 1      AMM(x, 1) -> 0
      one conditional subtraction of m -> max(f - 1, 0)
    (the three bounds documented at boxed_monty_form/mul.rs are ASSUMED), every value must reach
    level 0 where it is stored into a form, returned by a routine documented "fully reduced", or
    returned by pow / lincomb.
(c) from_const_params copies each parameter from the constant of the same name.
"""
import re

from .. import mir, flow
from ..common import Instance, norm_id, load_table

FORMS = {"modular::monty_form::MontyForm", "modular::const_monty_form::ConstMontyForm",
         "modular::boxed_monty_form::BoxedMontyForm"}
TOP = 9
BOXED = "uint::boxed::BoxedUint"


# =============================================================================================
# (a) who-may-write


class WProv(mir.Provenance):
    def is_vp(self, term):
        if super().is_vp(term):
            return True
        return mir.last_seg(mir.callee_decl(term)) in ("clone", "into", "borrow", "as_ref", "deref", "components_ref",
                                                       "unwrap_or", "from")


def run_a(facts, report, config):
    tab = load_table("c08.toml")
    producers = set(tab["producers"]["callees"])
    inplace = {tuple(x) for x in tab["inplace_producers"]["callees"]}
    raw_api = {e["fn"]: e for e in tab.get("raw_api", [])}
    reduced_consts = set(tab["reduced_constants"]["names"])
    reduced_fields = set(tab["reduced_constants"]["param_fields"])
    reviewed = {e["key"]: e for e in tab.get("reviewed", [])}
    used = set()
    ordn = {}

    def nextkey(rule, bid):
        k0 = "%s|%s" % (rule, norm_id(bid))
        n = ordn.get(k0, 0)
        ordn[k0] = n + 1
        return "%s|%d" % (k0, n)

    def reduced(view, prov, roots, fn_id, depth=0):
        if not roots or depth > 5:
            return None
        hows = []
        overwritten = False
        for r in roots:
            if r.kind == "multi" and r.site and r.site[1] != "term":
                st0 = view.blocks[r.site[0]]["stmts"][r.site[1]]
                if st0[2][0] in ("ref", "rawptr"):
                    recv = _receivers(view, st0[1][0])
                    if recv and all((norm_id(n), i) in inplace for (n, i) in recv):
                        overwritten = True
        for r in roots:
            if r.kind == "multi":
                hows.append("in-place update (judged at its own site)")
                continue
            if r.kind == "param" and overwritten and not r.path:
                hows.append("parameter overwritten in place by a reducing routine")
                continue
            if r.kind == "const":
                if any(norm_id(str(r.what)) == c or str(r.what).endswith(c) for c in reduced_consts):
                    hows.append("constant " + str(r.what))
                    continue
                return None
            if r.kind == "param":
                ty = mir.adt_of_ty(view.locals[r.what])
                if r.path and r.path[-1] in reduced_fields:
                    hows.append("field `%s` of a parameter" % r.path[-1])
                    continue
                if r.path[:1] == ("montgomery_form",) or (ty in FORMS and not r.path):
                    hows.append("representative of another form")
                    continue
                if norm_id(fn_id) in raw_api:
                    hows.append("raw API: " + raw_api[norm_id(fn_id)]["reason"])
                    continue
                return None
            if r.kind == "call":
                n = norm_id(r.what)
                seg = mir.last_seg(r.what)
                if n in producers:
                    hows.append("producer " + seg)
                    continue
                if seg in ("conditional_select", "ct_select", "select") and r.site:
                    t = view.blocks[r.site[0]]["term"]
                    ok = True
                    for a in t["args"][:2]:
                        if reduced(view, prov, mir.uniq_roots(prov.roots_of_operand(a)), fn_id, depth + 1) is None:
                            ok = False
                    if ok:
                        hows.append("select of two reduced values")
                        continue
                return None
            return None
        return "; ".join(sorted(set(hows)))

    for b in facts.body_list:
        if b["kind"] == "AnonConst":
            continue
        view = None
        for bi, bb in enumerate(b["blocks"]):
            if bb["cleanup"]:
                continue
            for si, s in enumerate(bb["stmts"]):
                if s[0] != "a":
                    continue
                rv = s[2]
                # aggregate construction
                if rv[0] == "agg" and rv[2] in FORMS and "montgomery_form" in rv[5]:
                    view = view or mir.BodyView(b)
                    prov = WProv(view)
                    op = rv[4][rv[5].index("montgomery_form")]
                    roots = mir.uniq_roots(prov.roots_of_operand(op))
                    report.count("montgomery_form_writes")
                    key = nextkey("c08.write", b["id"])
                    how = reduced(view, prov, roots, b["id"]) or _lt_guarded(view, prov, bi, roots)
                    _judge(report, config, key, "c08.write", s[3], how, reviewed, used,
                           {"body": b["id"], "roots": [repr(r) for r in roots]},
                           "montgomery_form initialised from %s, which is not a reducing producer" % [repr(r) for r in roots])
                # field store
                if _through_field(s[1][1]):
                    view = view or mir.BodyView(b)
                    prov = WProv(view)
                    ops = [rv[1]] if rv[0] == "use" else []
                    roots = mir.uniq_roots(prov.roots_of_operand(ops[0])) if ops else []
                    report.count("montgomery_form_writes")
                    key = nextkey("c08.store", b["id"])
                    how = reduced(view, prov, roots, b["id"]) if roots else None
                    _judge(report, config, key, "c08.store", s[3], how, reviewed, used,
                           {"body": b["id"], "roots": [repr(r) for r in roots]},
                           "montgomery_form overwritten with %s, which is not a reducing producer" % [repr(r) for r in roots])
                # &mut hand-out
                if rv[0] in ("ref", "rawptr") and (rv[1] == "mut" or "Mut" in rv[1]) and _through_field(rv[2][1]):
                    view = view or mir.BodyView(b)
                    report.count("montgomery_form_writes")
                    key = nextkey("c08.mutborrow", b["id"])
                    recv = _receivers(view, s[1][0])
                    how = None
                    if norm_id(b["id"]) in raw_api:
                        how = "raw API: " + raw_api[norm_id(b["id"])]["reason"]
                    elif recv and all((norm_id(n), i) in inplace for (n, i) in recv):
                        how = "handed to in-place reducing routine(s) %s" % sorted({mir.last_seg(n) for n, _ in recv})
                    _judge(report, config, key, "c08.mutborrow", s[3], how, reviewed, used,
                           {"body": b["id"], "receivers": [[norm_id(n), i] for n, i in recv]},
                           "&mut montgomery_form handed to %s, not a known in-place reducing routine" % (
                               [norm_id(n) for n, _ in recv] or "no callee (escapes)"))
    for k in reviewed:
        if k not in used and k.startswith("c08."):
            report.stale.append({"table": "c08.toml", "key": k, "config": config})


def _judge(report, config, key, rule, site, how, reviewed, used, detail, why):
    if how:
        report.add(Instance(key, rule, "ok", "auto: " + how, site, detail), config)
        return
    e = reviewed.get(key)
    cur = sorted(str(x) for x in (detail.get("roots") if detail.get("roots") is not None else detail.get("receivers", [])))
    if e is not None and sorted(str(x) for x in e.get("provenance", [])) == cur:
        used.add(key)
        report.add(Instance(key, rule, "reviewed", "reviewed: " + e["reason"], site, detail), config)
        return
    if e is not None:
        used.add(key)
        why = "reviewed entry invalidated (provenance changed to %s): %s" % (cur, why)
    report.add(Instance(key, rule, "violation", why, site, detail), config)


def _lt_guarded(view, prov, site_bb, roots):
    """The stored value is dominated by a branch on `value < <something>` (range check with an error exit)."""
    keys = {(r.kind, r.what, r.path, r.site) for r in roots if r.kind != "multi"}
    if not keys:
        return None
    for d in view.dominators(site_bb):
        t = view.blocks[d]["term"]
        if t["k"] != "switch":
            continue
        rs = mir.uniq_roots(prov.roots_of_operand(t["op"]))
        if len(rs) != 1 or rs[0].kind != "call" or not rs[0].site:
            continue
        ct = view.blocks[rs[0].site[0]]["term"]
        if mir.last_seg(mir.callee_decl(ct)) not in ("lt", "ct_lt") or len(ct["args"]) < 2:
            continue
        a0 = {(r.kind, r.what, r.path, r.site) for r in prov.roots_of_operand(ct["args"][0]) if r.kind != "multi"}
        if a0 == keys and len(set(t["t"])) == 2:
            ok_t = t["t"][1]      # value != 0 -> `lt` returned true
            if view.dominates(ok_t, site_bb) and view.pred[ok_t] == [d]:
                return "dominated by the true branch of `value < bound` (range check with an error exit)"
    return None


def _through_field(proj):
    for e in proj:
        if e != "*" and e[0] == "f" and e[2] == "montgomery_form" and len(e) > 3 and e[3] in FORMS:
            return True
    return False


def _receivers(view, local):
    derived = {local}
    changed = True
    while changed:
        changed = False
        for bb in view.blocks:
            for s in bb["stmts"]:
                if s[0] != "a" or s[1][1]:
                    continue
                rv = s[2]
                src = None
                if rv[0] == "use" and rv[1][0] in ("c", "m"):
                    src = rv[1][1][0]
                elif rv[0] in ("ref", "rawptr"):
                    src = rv[2][0]
                elif rv[0] == "cfd":
                    src = rv[1][0]
                elif rv[0] == "cast" and rv[2][0] in ("c", "m"):
                    src = rv[2][1][0]
                if src in derived and s[1][0] not in derived:
                    derived.add(s[1][0])
                    changed = True
    out = []
    for bi, t in view.calls():
        if view.blocks[bi]["cleanup"]:
            continue
        for ai, a in enumerate(t["args"]):
            if a[0] in ("c", "m") and a[1][0] in derived:
                out.append((mir.callee_name(t), ai))
    return out


# =============================================================================================
# (b) reduction-level typestate


PASS = {"as_limbs", "as_limbs_mut", "as_ref", "as_mut", "deref", "deref_mut", "borrow", "borrow_mut", "clone",
        "to_limbs", "as_words", "as_words_mut", "index", "index_mut", "into", "from", "iter", "iter_mut", "as_slice",
        "as_mut_slice", "get_unchecked", "to_owned"}
COPY = {"copy_from_slice", "clone_from_slice", "clone_from"}
JOIN = {"ct_assign", "conditional_assign"}
REDUCED_PRODUCERS = {"add_mod", "sub_mod", "neg_mod", "double_mod", "div_by_2_boxed", "zero_with_precision",
                     "one_with_precision", "zero", "one", "add_mod_assign", "rem", "rem_vartime", "shorten", "widen",
                     "lincomb_boxed_monty_form", "div_by_2_boxed_assign", "invert", "invert_vartime", "inv", "inv_vartime"}
SCOPE_PREFIX = ("modular::boxed_monty_form", "<modular::boxed_monty_form")


def lmax(a, b):
    if a is None:
        return b
    if b is None:
        return a
    return max(a, b)


def cap(x):
    return x if x is None or x >= TOP else min(x, 3)


class Levels:
    def __init__(self, facts, report, config):
        self.facts = facts
        self.report = report
        self.config = config
        self.eng = flow.Engine(facts, flow.Policy())
        self.memo = {}
        self.stack = set()
        self.obligations = []

    def in_scope(self, fid):
        return fid.startswith(SCOPE_PREFIX) and fid in self.eng.by_id

    def default_args(self, b, view):
        """Entry assumption: every BoxedUint / form parameter holds a reduced value, except the raw
        integer accepted by the constructors (arbitrary)."""
        out = []
        names = b.get("names", {})
        for i in range(1, view.argc + 1):
            ty = view.locals[i]
            if BOXED in ty or "BoxedMonty" in ty or "[limb::Limb]" in ty:
                if mir.last_seg(b["id"]) in ("new", "new_with_arc") and names.get(str(i)) == "integer":
                    out.append(TOP)
                else:
                    out.append(0)
            else:
                out.append(None)
        return tuple(out)

    def evaluate(self, fid, args, record=False):
        key = (fid, args)
        if key in self.memo and not record:
            return self.memo[key]
        if key in self.stack:
            return (TOP, {})
        self.stack.add(key)
        try:
            res = self._run(fid, args, record)
        finally:
            self.stack.discard(key)
        self.memo[key] = res
        return res

    def _run(self, fid, args, record):
        view = self.eng.view(fid)
        al, resolve, holders = self.eng.aliases(view)
        blocks = view.blocks
        init = {}
        for i, lv in enumerate(args):
            if lv is not None:
                init[(i + 1, ())] = lv
        prov = mir.Provenance(view)

        def npath(p):
            # BoxedUint { limbs: Box<[Limb]> }: the limbs *are* the value
            return tuple(e for e in p if e not in ("limbs", "pointer"))

        raw_resolve = resolve

        def resolve(place):
            return {(x, npath(p)) for (x, p) in raw_resolve(place)}

        def lookup(st, x, p):
            q = npath(p)
            while True:
                if (x, q) in st:
                    return st[(x, q)]
                if not q:
                    return None
                q = q[:-1]

        def read(st, place):
            l, proj = place
            locs = resolve((l, proj)) if proj else {(l, ())}
            out = None
            for (x, p) in locs:
                out = lmax(out, lookup(st, x, p))
            if mir.has_deref(proj) and (l, ()) not in locs:
                out = lmax(out, lookup(st, l, npath(mir.field_path(proj))))
            return out

        def read_op(st, op):
            if op[0] == "k":
                return None
            return read(st, op[1])

        def write(st, place, lv, weak=False):
            l, proj = place
            locs = resolve((l, proj)) if proj else {(l, ())}
            if holders:
                extra = set()
                for (x, p) in locs:
                    if x in holders:
                        extra |= al.get(x, set())
                locs = locs | extra
            strong = len(locs) == 1 and not weak and not mir.index_locals(proj)
            for (x, p) in locs:
                if strong:
                    for k in [k for k in st if k[0] == x and k[1][:len(p)] == p]:
                        del st[k]
                    if lv is not None:
                        st[(x, p)] = lv
                else:
                    cur = lookup(st, x, p)
                    nv = lmax(cur, lv)
                    if nv is not None:
                        st[(x, p)] = nv
            if mir.has_deref(proj) and (l, ()) not in locs:
                fp = npath(mir.field_path(proj))
                cur = lookup(st, l, fp)
                nv = lv if strong else lmax(cur, lv)
                if nv is not None:
                    st[(l, fp)] = nv

        def same_storage(a, b):
            if a[0] == "k" or b[0] == "k":
                return False
            ra = {(r.kind, r.what, r.path, r.site) for r in prov.roots_of_operand(a) if r.kind != "multi"}
            rb = {(r.kind, r.what, r.path, r.site) for r in prov.roots_of_operand(b) if r.kind != "multi"}
            return bool(ra) and ra == rb

        def deref_place(op):
            pl = op[1]
            return (pl[0], list(pl[1]) + ["*"])

        def do_call(st, bi, t):
            name = mir.callee_name(t) or ""
            seg = mir.last_seg(mir.callee_decl(t)) or ""
            rseg = mir.last_seg(name) or seg
            args_ = t["args"]
            lv = [read_op(st, a) for a in args_]
            ret = None
            if rseg == "almost_montgomery_mul" and len(args_) >= 3:
                x, y = lv[1], lv[2]
                if same_storage(args_[1], args_[2]):
                    r = 1
                else:
                    xx = TOP if x is None else x
                    yy = TOP if y is None else y
                    r = min(xx, yy) + 1
                    r = TOP if r > TOP else cap(r)
                write(st, deref_place(args_[0]), r)
            elif rseg == "almost_montgomery_mul_by_one" and args_:
                write(st, deref_place(args_[0]), 0)
            elif seg in COPY and len(args_) >= 2 and args_[0][0] != "k":
                write(st, deref_place(args_[0]), lv[1])
            elif seg in JOIN and len(args_) >= 2 and args_[0][0] != "k":
                write(st, deref_place(args_[0]), lv[1], weak=True)
            elif rseg == "push" and name.startswith("alloc::vec::Vec") and len(args_) >= 2:
                write(st, deref_place(args_[0]), lv[1], weak=True)
            elif rseg in ("with_capacity", "new") and name.startswith("alloc::vec::Vec"):
                ret = None
            elif rseg == "sub_assign_mod_with_carry" and len(args_) >= 4 and args_[0][0] != "k":
                carry_zero = args_[1][0] == "k" and "ZERO" in (args_[1][3] or "")
                if carry_zero and same_storage(args_[2], args_[3]) and lv[0] is not None and lv[0] < TOP:
                    write(st, deref_place(args_[0]), max(lv[0] - 1, 0))
                elif carry_zero and not same_storage(args_[2], args_[3]) and lv[0] == 0 and lv[2] == 0:
                    write(st, deref_place(args_[0]), 0)     # a - b mod p for reduced a, b
                else:
                    write(st, deref_place(args_[0]), TOP)
            elif rseg == "conditional_sbb_assign" and len(args_) >= 3 and args_[0][0] != "k":
                ok = False
                cr = mir.uniq_roots(prov.roots_of_operand(args_[2]))
                if len(cr) == 1 and cr[0].kind == "call" and mir.last_seg(cr[0].what) == "not" and cr[0].site:
                    nt = blocks[cr[0].site[0]]["term"]
                    lr = mir.uniq_roots(prov.roots_of_operand(nt["args"][0])) if nt["args"] else []
                    if len(lr) == 1 and lr[0].kind == "call" and mir.last_seg(lr[0].what) in ("ct_lt", "lt") and lr[0].site:
                        lt = blocks[lr[0].site[0]]["term"]
                        if len(lt["args"]) >= 2 and same_storage(lt["args"][0], args_[0]) and \
                                same_storage(lt["args"][1], args_[1]):
                            ok = True
                if ok and lv[0] is not None and lv[0] < TOP:
                    write(st, deref_place(args_[0]), max(lv[0] - 1, 0))
                elif not ok:
                    pass  # a subtraction under some other condition: no reduction credited
            elif seg in PASS or rseg in PASS:
                ret = lv[0] if lv else None
            elif rseg in REDUCED_PRODUCERS and not self.in_scope(name):
                ret = 0
                if rseg.endswith("_assign") and args_ and args_[0][0] != "k":
                    write(st, deref_place(args_[0]), 0)
            elif self.in_scope(name):
                cview = self.eng.view(name)
                cargs = []
                for i in range(cview.argc):
                    cargs.append(lv[i] if i < len(lv) else None)
                r, outs = self.evaluate(name, tuple(cargs))
                ret = r
                for pi, olv in outs.items():
                    if pi - 1 < len(args_) and args_[pi - 1][0] != "k":
                        write(st, deref_place(args_[pi - 1]), olv)
            else:
                ret = None
            write(st, t["dst"], ret)

        def transfer(bi, st):
            bb = blocks[bi]
            for s in bb["stmts"]:
                if s[0] != "a":
                    continue
                place, rv = s[1], s[2]
                k = rv[0]
                if k == "use":
                    write(st, place, read_op(st, rv[1]))
                elif k in ("ref", "rawptr"):
                    write(st, place, read(st, rv[2]))
                elif k == "cfd":
                    write(st, place, read(st, rv[1]))
                elif k == "cast":
                    write(st, place, read_op(st, rv[2]))
                elif k == "agg":
                    write(st, place, None)
                    names = rv[5]
                    for j, o in enumerate(rv[4]):
                        fname = names[j] if (rv[1] == "adt" and j < len(names)) else str(j)
                        lvj = read_op(st, o)
                        if lvj is not None:
                            write(st, (place[0], list(place[1]) + [["f", j, fname, rv[2]]]), lvj)
                        if record and rv[2] == "modular::boxed_monty_form::BoxedMontyForm" and fname == "montgomery_form":
                            self.obligations.append(("store", fid, bi, s[3], lvj, args))
                else:
                    write(st, place, None)
            t = bb["term"]
            if t["k"] == "call":
                do_call(st, bi, t)

        # forward fixpoint, join = max
        order = view.rpo()
        ins = {0: dict(init)}
        work = [0]
        it = 0
        while work and it < 60 * max(1, view.n):
            it += 1
            bi = work.pop(0)
            st = dict(ins[bi])
            transfer(bi, st)
            for s in view.succ[bi]:
                cur = ins.get(s)
                if cur is None:
                    ins[s] = dict(st)
                    work.append(s)
                else:
                    ch = False
                    for k, v in st.items():
                        c = cur.get(k)
                        nv = lmax(c, v)
                        if nv != c:
                            cur[k] = nv
                            ch = True
                    if ch and s not in work:
                        work.append(s)
        ret = None
        outs = {}
        for bi in order:
            if bi not in ins or blocks[bi]["term"]["k"] != "ret":
                continue
            st = dict(ins[bi])
            transfer(bi, st)
            r0 = lookup(st, 0, ())
            if r0 is None:
                r0 = lookup(st, 0, ("montgomery_form",))
            ret = lmax(ret, r0)
            for i in range(1, view.argc + 1):
                ty = view.locals[i]
                if ty.startswith("&mut "):
                    o = lookup(st, i, ())
                    mf = lookup(st, i, ("montgomery_form",))
                    if "BoxedMontyForm" in ty and mf is not None:
                        o = mf
                    if o is not None:
                        outs[i] = lmax(outs.get(i), o)
        return (ret, outs)


DOCUMENTED_REDUCED = {
    # fn (normalised) -> which result must be level 0 ("ret" or 1-based &mut parameter index)
    "modular::boxed_monty_form::mul::BoxedMontyMultiplier<_>::mul": "ret",
    "modular::boxed_monty_form::mul::BoxedMontyMultiplier<_>::square": "ret",
    "modular::boxed_monty_form::mul::BoxedMontyMultiplier<_>::mul_by_one": "ret",
    "modular::boxed_monty_form::mul::BoxedMontyMultiplier<_>::mul_assign": 2,
    "modular::boxed_monty_form::mul::BoxedMontyMultiplier<_>::square_assign": 2,
    "modular::boxed_monty_form::pow::pow_montgomery_form": "ret",
}


def run_b(facts, report, config):
    if not any(b["id"].startswith("modular::boxed_monty_form") for b in facts.fn_bodies()):
        return
    lv = Levels(facts, report, config)
    for b in facts.fn_bodies():
        fid = b["id"]
        if b["kind"] == "Closure" or not lv.in_scope(fid):
            continue
        view = lv.eng.view(fid)
        args = lv.default_args(b, view)
        ret, outs = lv.evaluate(fid, args, record=True)
        report.count("boxed_monty_bodies_interpreted")
        n = norm_id(fid)
        want = DOCUMENTED_REDUCED.get(n)
        checks = []
        if want == "ret":
            checks.append(("returned value", ret))
        elif isinstance(want, int):
            checks.append(("value left in parameter _%d" % want, outs.get(want)))
        so = b.get("sig_out") or ""
        if "BoxedMontyForm" in so and want is None:
            checks.append(("representative of the returned form", ret))
        for i in range(1, view.argc + 1):
            if view.locals[i].startswith("&mut ") and "BoxedMontyForm" in view.locals[i]:
                checks.append(("representative left in *_%d" % i, outs.get(i)))
        for what, level in checks:
            report.count("reduction_level_obligations")
            key = "c08.level|%s|%s" % (n, what.split(" ")[0] + what[-2:])
            detail = {"body": fid, "assumed_argument_levels": list(args), "level": level}
            if level == 0:
                report.add(Instance(key, "c08.level", "ok",
                                    "auto: %s has reduction level 0 on every path (arguments assumed %s)" % (what, list(args)),
                                    b["span"], detail), config)
            elif level is None:
                report.add(Instance(key, "c08.level", "info",
                                    "%s is not produced by the tracked almost-Montgomery routines (covered by the "
                                    "who-may-write clause)" % what, b["span"], detail), config)
            else:
                report.add(Instance(key, "c08.level", "violation",
                                    "%s of `%s` can have floor(x/m) up to %s: the number of final conditional "
                                    "subtractions does not match the accumulated excess of the almost-Montgomery "
                                    "products" % (what, fid, "unbounded" if level >= TOP else level), b["span"], detail),
                           config)
    seen = set()
    for (kind, fid, bi, span, level, args) in lv.obligations:
        if args != lv.default_args(lv.eng.by_id[fid], lv.eng.view(fid)):
            continue
        k = (fid, bi)
        if k in seen:
            continue
        seen.add(k)
        report.count("reduction_level_obligations")
        key = "c08.level|%s|store@%d" % (norm_id(fid), len([1 for x in seen if x[0] == fid]) - 1)
        if level == 0:
            report.add(Instance(key, "c08.level", "ok", "auto: value stored as montgomery_form has level 0", span,
                                {"body": fid}), config)
        elif level is None:
            report.add(Instance(key, "c08.level", "info", "stored value not produced by tracked routines (who-may-write "
                                "clause applies)", span, {"body": fid}), config)
        else:
            report.add(Instance(key, "c08.level", "violation",
                                "value stored as montgomery_form in `%s` can have floor(x/m) up to %s" % (
                                    fid, "unbounded" if level >= TOP else level), span, {"body": fid, "level": level}),
                       config)


# =============================================================================================
# (c) from_const_params name correspondence


def run_c(facts, report, config):
    for b in facts.fn_bodies():
        if b.get("name") != "from_const_params":
            continue
        for bb in b["blocks"]:
            for s in bb["stmts"]:
                if s[0] == "a" and s[2][0] == "agg" and s[2][1] == "adt" and "MontyParams" in (s[2][2] or ""):
                    view = mir.BodyView(b)
                    prov = WProv(view)
                    names = s[2][5]
                    report.count("from_const_params_sites")
                    for j, o in enumerate(s[2][4]):
                        fname = names[j]
                        roots = mir.uniq_roots(prov.roots_of_operand(o))
                        consts = {mir.last_seg(str(r.what)) for r in roots if r.kind == "const"}
                        # through conversions (Odd -> Odd<BoxedUint>, Uint -> BoxedUint)
                        for r in roots:
                            if r.kind == "agg" and r.site and r.site[1] != "term":
                                st2 = view.blocks[r.site[0]]["stmts"][r.site[1]]
                                for a in st2[2][4]:
                                    for r2 in mir.uniq_roots(prov.roots_of_operand(a)):
                                        if r2.kind == "const":
                                            consts.add(mir.last_seg(str(r2.what)))
                            if r.kind == "call" and r.site:
                                t = view.blocks[r.site[0]]["term"]
                                for a in t["args"]:
                                    for r2 in mir.uniq_roots(prov.roots_of_operand(a)):
                                        if r2.kind == "const":
                                            consts.add(mir.last_seg(str(r2.what)))
                        key = "c08.constparams|%s|%s" % (norm_id(b["id"]), fname)
                        want = fname.upper()
                        if consts == {want}:
                            report.add(Instance(key, "c08.constparams", "ok", "auto: field `%s` <- constant %s" % (fname, want),
                                                s[3], {"body": b["id"]}), config)
                        else:
                            report.add(Instance(key, "c08.constparams", "violation",
                                                "field `%s` of the runtime parameters is initialised from %s, expected the "
                                                "constant %s" % (fname, sorted(consts) or [repr(r) for r in roots], want), s[3],
                                                {"body": b["id"]}), config)


# ---------------------------------------------------------------------------------------------
# (f) residue-valued parameter fields (R mod m, R^2 mod m, R^3 mod m) come from reducing producers.

PARAM_ADTS = ("modular::monty_form::MontyParams", "modular::boxed_monty_form::BoxedMontyParams")
RESIDUE_FIELDS = ("one", "r2", "r3")
REDUCING = {"rem", "rem_vartime", "rem_wide", "rem_wide_vartime", "montgomery_reduction", "add_mod", "sub_mod", "mul_mod",
            "neg_mod", "double_mod", "square", "mul", "retrieve", "div_rem", "div_rem_vartime", "rem_limb"}
PASS_THROUGH = {"split", "shorten", "resize", "into", "from", "clone", "conditional_select", "ct_select", "select", "1", "0"}


def run_params(facts, report, config):
    """`one`, `r2`, `r3` are stored residues: the last value-changing operation on the way to the field must be a
    reduction (a remainder, a Montgomery reduction / multiplication, a modular add). `(2^BITS - 1) mod m + 1` computed
    with a plain wrapping add equals m — not R mod m — when m divides 2^BITS, i.e. for m = 1."""
    for b in facts.body_list:
        view = None
        prov = None
        for bi, bb in enumerate(b["blocks"]):
            if bb["cleanup"]:
                continue
            for s in bb["stmts"]:
                if not (s[0] == "a" and s[2][0] == "agg" and s[2][1] == "adt" and s[2][2] in PARAM_ADTS):
                    continue
                view = view or mir.BodyView(b)
                prov = prov or mir.Provenance(view)
                names = [x["name"] for x in facts.adts[s[2][2]]["variants"][0]["fields"]]
                for nm, op in zip(names, s[2][4]):
                    if nm not in RESIDUE_FIELDS:
                        continue
                    report.count("residue_parameter_fields")
                    key = "c08.param|%s|%s" % (norm_id(b["id"]), nm)
                    bad = _non_reducing(view, prov, op, 0, facts)
                    if bad:
                        report.add(Instance(key, "c08.param", "violation",
                                            "parameter field `%s` (a residue modulo the modulus) is produced by `%s`, which does "
                                            "not reduce: the stored value can equal the modulus itself (for `(2^BITS - 1) mod m + 1` "
                                            "exactly when m divides 2^BITS, i.e. m = 1), so it is not the canonical residue" % (
                                                nm, bad), s[3], {"body": b["id"]}), config)
                    else:
                        report.add(Instance(key, "c08.param", "ok", "auto: `%s` comes from a reducing producer, another "
                                            "parameter set or a constant of the same role" % nm, s[3], {"body": b["id"]}), config)


def _non_reducing(view, prov, op, depth, facts=None):
    """name of a non-reducing last operation, or None"""
    if depth > 5:
        return None
    for r in mir.uniq_roots(prov.roots_of_operand(op)):
        if r.kind == "param":
            continue                         # copied from another parameter set / argument (judged where it was built)
        if r.kind == "const":
            continue                         # P::ONE / P::R2 / P::R3 of a compile-time modulus
        if r.kind == "multi":
            continue
        if r.kind != "call" or r.site is None:
            return r.kind
        t = view.blocks[r.site[0]]["term"]
        seg = mir.last_seg(mir.callee_name(t)) or mir.last_seg(mir.callee_decl(t)) or "?"
        if seg in REDUCING:
            continue
        if seg in PASS_THROUGH and t["args"]:
            for a in t["args"][:2] if seg in ("conditional_select", "ct_select", "select") else t["args"][:1]:
                bad = _non_reducing(view, prov, a, depth + 1, facts)
                if bad:
                    return bad
            continue
        # an in-crate helper whose own result is reduced, constant, or handed through from its parameters (a local
        # `pick(a, b, choice)` around conditional_select, a conversion wrapper): judge its arguments instead
        res = t["f"].get("res")
        cb = facts.bodies.get(res) if (facts is not None and res) else None
        if cb is not None and depth < 4:
            cv = mir.BodyView(cb)
            if _non_reducing(cv, mir.Provenance(cv), ("c", (0, [])), depth + 1, facts) is None:
                for a in t["args"]:
                    if a[0] != "k" and mir.is_ptr_ty(view.locals[a[1][0]]) or a[0] != "k" and "Uint" in view.locals[a[1][0]]:
                        bad = _non_reducing(view, prov, a, depth + 1, facts)
                        if bad:
                            return bad
                continue
        return seg
    return None
