"""Operand completeness: the value an arithmetic operation returns (or leaves in its `&mut` receiver) depends, in the
label-flow summary, on every operand. A result that ignores an operand cannot be the mathematical result for all
inputs. Only the *absence* of a dependence is decisive; a present one proves nothing."""
from .. import mir, flow
from ..common import Instance, norm_id

SKIP_TYS = ("u32", "usize", "bool")


def engine(facts):
    eng = flow.Engine(facts, flow.Policy())
    eng.run_all(collect=False)
    return eng


def run(facts, report, config, select, prefix, counter, eng=None, what="operation", skip_param=None):
    eng = eng or engine(facts)
    for b in facts.fn_bodies():
        if b["kind"] == "Closure" or not b.get("reach") or not select(b):
            continue
        view = eng.view(b["id"])
        if view.argc < 1:
            continue
        summ = eng.summaries.get(b["id"])
        if summ is None:
            continue
        report.count(counter)
        key = "%s|%s" % (prefix, norm_id(b["id"]))
        so = b.get("sig_out") or ""
        names = b.get("names") or {}
        inplace = so in ("()", "") and view.locals[1].startswith("&mut")
        if inplace:
            val = summ.outs.get(1)
            labels = flow.v_flat(val) if val is not None else frozenset()
            have = {1}
        else:
            labels = flow.v_flat(summ.ret)
            have = set()
            if so in ("()", ""):
                continue
        for l in labels:
            if l.startswith("@"):
                have.add(int(l[1:].split(".")[0].split("#")[0]))
        want = set()
        for p in range(1, view.argc + 1):
            ty = mir.peel_refs(view.locals[p])
            if "MontyParams" in ty or (skip_param and skip_param(b, p, ty, names.get(str(p)))):
                continue
            want.add(p)
        miss = sorted(want - have)
        detail = {"body": b["id"], "depends_on": sorted(have), "operands": sorted(want), "in_place": inplace}
        if miss:
            report.add(Instance(key, prefix, "violation",
                                "the result of `%s` does not depend on operand(s) %s: a %s whose result ignores %s cannot be "
                                "the mathematical result for every input" % (
                                    b.get("name"), ["_%d (%s)" % (p, names.get(str(p), "?")) for p in miss], what,
                                    "it" if len(miss) == 1 else "them"), b["span"], detail), config)
        else:
            report.add(Instance(key, prefix, "ok", "auto: the result depends on every operand %s" % sorted(want),
                                b["span"], detail), config)
