"""Sign extension of signed primitives (C13 clause `c13.signext`).

A two's-complement value that came out of a signed primitive (`i8 .. i128`, `isize`) by an `as uN` cast keeps its
meaning only as long as every later *widening* step extends it with copies of the sign bit.  The crate has exactly one
sign-extending widening (`Int::resize`); every unsigned constructor / resize that produces a `Uint` of a width the
function does not fix (`Uint<LIMBS>` with `LIMBS` a generic parameter) pads with zeros.  Rule: no value that is
derived, by casts / copies / aggregates / fixed-width constructors only, from a signed->unsigned cast may be the
argument of a zero-padding widening whose result width is generic.  Breaking it turns every negative input into a
large positive number at every width above the primitive's own — a value outside the property's "exact result".

This is the structure, not the value: which bits the fixed-width part holds is not looked at.
"""
import re

from .. import mir
from ..common import Instance, norm_id

SIGNED = {"i8", "i16", "i32", "i64", "i128", "isize"}
WIDEN = re.compile(r"^(from_u8|from_u16|from_u32|from_u64|from_u128|from_word|from_wide_word|resize|from|into)$")
# fixed-width steps the chase looks through (all arguments are followed)
THROUGH = re.compile(r"^(from_u8|from_u16|from_u32|from_u64|from_u128|from_word|from_wide_word|new|as_int|as_uint|"
                     r"from|into|resize|to_limbs|from_words|to_words|clone)$")
GENERIC_UINT = re.compile(r"^&?(uint::Uint|int::Int)<([A-Z][A-Z0-9_]*)>$")


def _signed_cast_sources(view, op, depth=0, seen=None):
    """Spans of signed->unsigned IntToInt casts the operand is derived from through structure-preserving steps."""
    seen = seen if seen is not None else set()
    if op[0] == "k" or depth > 12:
        return []
    local = op[1][0]
    if local in seen:
        return []
    seen.add(local)
    out = []
    for d in view.defs.get(local, []):
        if d["kind"] == "call":
            t = d["term"]
            if THROUGH.match(mir.last_seg(mir.callee_name(t) or "") or ""):
                for a in t["args"]:
                    out += _signed_cast_sources(view, a, depth + 1, seen)
            continue
        rv = d.get("rv")
        if not rv:
            continue
        k = rv[0]
        if k == "use":
            out += _signed_cast_sources(view, rv[1], depth + 1, seen)
        elif k in ("ref", "rawptr"):
            out += _signed_cast_sources(view, ("c", rv[2]), depth + 1, seen)
        elif k == "cfd":
            out += _signed_cast_sources(view, ("c", rv[1]), depth + 1, seen)
        elif k == "cast":
            src = rv[2]
            if rv[1] == "IntToInt" and src[0] != "k":
                sty = view.locals[src[1][0]] if not src[1][1] else None
                dty = view.locals[local]
                if sty in SIGNED and dty not in SIGNED:
                    out.append(d.get("span") or "")
                    continue
            out += _signed_cast_sources(view, src, depth + 1, seen)
        elif k == "agg":
            for o in rv[4]:
                out += _signed_cast_sources(view, o, depth + 1, seen)
    return out


def run(facts, report, config, prefix="c13.signext"):
    for b in facts.fn_bodies():
        if b.get("derived"):
            continue
        view = mir.BodyView(b)
        has_signed_cast = False
        for bb in view.blocks:
            for s in bb["stmts"]:
                if s[0] == "a" and s[2][0] == "cast" and s[2][1] == "IntToInt" and s[2][2][0] != "k" \
                        and not s[2][2][1][1] and view.locals[s[2][2][1][0]] in SIGNED \
                        and view.locals[s[1][0]] not in SIGNED:
                    has_signed_cast = True
        if not has_signed_cast:
            continue
        report.count("bodies_with_signed_to_unsigned_casts")
        for bi, t in view.calls():
            if view.blocks[bi]["cleanup"]:
                continue
            name = mir.callee_name(t) or ""
            seg = mir.last_seg(name) or ""
            if not WIDEN.match(seg) or t["dst"][1]:
                continue
            dty = view.locals[t["dst"][0]]
            m = GENERIC_UINT.match(dty or "")
            if not m:
                continue
            zero_pad = m.group(1) == "uint::Uint" or "uint::" in name
            srcs = []
            for a in t["args"]:
                srcs += _signed_cast_sources(view, a)
            report.count("generic_width_widenings_in_signed_cast_bodies")
            key = "%s|%s|%s" % (prefix, norm_id(b["id"]), seg)
            if srcs and zero_pad:
                report.add(Instance(key, prefix, "violation",
                                    "`%s` widens a value that came out of a signed primitive by an `as` cast (%s) with the "
                                    "zero-padding `%s` into a width the function does not fix (%s): negative inputs become "
                                    "large positive numbers; widen through the sign-extending `Int::resize` instead" % (
                                        b.get("name"), srcs[0], name, dty), t["s"], {"body": b["id"], "callee": name}),
                           config)
            else:
                report.add(Instance(key, prefix, "ok",
                                    "auto: %s" % ("sign-extending widening (Int::resize)" if srcs else
                                                  "argument does not come from a signed->unsigned cast"),
                                    t["s"], {"body": b["id"], "callee": name}), config)
