"""Documented panics must exist in release builds ("stated belief" rule).

A function whose documentation says "Panics if / when ..." and whose only explicit panic sites — its own and those
of the in-crate functions it calls directly — come from `debug_assert*!` macros does not panic in the optimized
build users run: the documented contract (and, for the arithmetic families, the property's "panic occurs exactly when
...") holds in debug builds only. Compiler-inserted bounds / overflow checks are not counted either way."""
import re

from .. import mir
from ..common import Instance, norm_id

DOC = re.compile(r"[Pp]anics? (if|when|on|in case)[^\n.]*|[^\n.]*\b(will|function will|otherwise) panic\b[^\n.]*")
PANIC_SEGS = ("expect", "unwrap", "expect_failed", "unwrap_failed")


def _own_panics(b):
    view = mir.BodyView(b)
    dbg = rel = 0
    for bi, t in view.calls():
        if view.blocks[bi]["cleanup"]:
            continue
        n = mir.callee_name(t) or ""
        if n.startswith("core::panicking::") or mir.last_seg(n) in PANIC_SEGS:
            if any("debug_assert" in m for m in (t.get("m") or [])):
                dbg += 1
            else:
                rel += 1
    return dbg, rel


def _release_panics_below(facts, b, depth, seen):
    """release-mode explicit panic sites in the in-crate functions reachable from b (resolved callees, depth <= 4)"""
    if depth > 4:
        return 0
    n = 0
    view = mir.BodyView(b)
    for bi, t in view.calls():
        if view.blocks[bi]["cleanup"]:
            continue
        res = t["f"].get("res")
        if res and res in facts.bodies and res not in seen:
            seen.add(res)
            cb = facts.bodies[res]
            n += _own_panics(cb)[1] + _release_panics_below(facts, cb, depth + 1, seen)
    return n


def _overflow_checks(b):
    view = mir.BodyView(b)
    return {view.blocks[i]["term"]["msg"] for i in view.live_blocks()
            if view.blocks[i]["term"]["k"] == "assert" and str(view.blocks[i]["term"].get("msg", "")).startswith("overflow")}


def _other_checks(b):
    """compiler-inserted checks that survive in release builds (bounds, division by zero, ...), own calls that may panic"""
    view = mir.BodyView(b)
    for i in view.live_blocks():
        t = view.blocks[i]["term"]
        if t["k"] == "assert" and not str(t.get("msg", "")).startswith("overflow"):
            return True
        if t["k"] == "call":
            return True       # the documented panic may come from a callee we do not see into
    return False


def run(facts, report, config, select, prefix, counter="documented_panics"):
    for b in facts.fn_bodies():
        if b["kind"] == "Closure" or not select(b):
            continue
        m = DOC.search(b.get("doc") or "") or DOC.search(b.get("trait_doc") or "")
        if not m:
            continue
        report.count(counter)
        key = "%s|%s" % (prefix, norm_id(b["id"]))
        dbg, rel = _own_panics(b)
        callee_rel = _release_panics_below(facts, b, 0, {b["id"]})
        ovf = _overflow_checks(b)
        if not dbg and not rel and not callee_rel and ovf and not _other_checks(b):
            report.add(Instance(key, prefix, "violation",
                                "`%s` is documented to panic ('%s') but contains no panic site of its own: the only thing that can "
                                "stop it is the compiler's arithmetic-overflow check (%s), which exists in builds with overflow "
                                "checks only — the optimized build carries on with a wrapped / masked result" % (
                                    b.get("name"), m.group(0)[:90], ", ".join(sorted(ovf))), b["span"],
                                {"body": b["id"], "doc": m.group(0)}), config)
            continue
        if dbg and not rel and not callee_rel:
            report.add(Instance(key, prefix, "violation",
                                "`%s` is documented to panic ('%s') but its only explicit panic site(s) are debug assertions "
                                "(%d): in the optimized build it carries on with the condition unchecked" % (
                                    b.get("name"), m.group(0)[:90], dbg), b["span"], {"body": b["id"], "doc": m.group(0)}), config)
        else:
            report.add(Instance(key, prefix, "ok" if (rel or callee_rel) else "info",
                                "auto: a release-mode panic site exists (%d own, %d in callees)" % (rel, callee_rel)
                                if (rel or callee_rel) else "documented panic comes from a deeper callee or a compiler-inserted "
                                "check: not judged", b["span"], {"body": b["id"]}), config)
