"""C12 — NonZero / Odd can never hold an invalid value (DESIGN.md §3 C12).

Decides, from MIR and type facts only:
  R1 every creation site (aggregate construction, in function bodies and constant initialisers),
     every in-place mutation site (store / &mut borrow projecting into the wrapped field),
     every reinterpreting pointer cast to a wrapper, every fn-item use of the tuple constructor
     and every unsafe "conjuring" call is discharged by one of the automatic rules below or by a
     reviewed table entry whose provenance fingerprint still matches;
  R4 no back door in the type's interface (field private, no DerefMut/AsMut/BorrowMut/IndexMut,
     no public function handing out `&mut` to the inner value);
  R5 functions named for one byte order do not call decoders named for the other (shared with C16).
"""
import re

from .. import mir
from ..common import Instance, norm_id, load_table

WRAPPERS = {"non_zero::NonZero": "NonZero", "odd::Odd": "Odd"}

# invariant predicates, by last path segment of the resolved callee: +1 = true means valid
PRED = {
    "NonZero": {"is_nonzero": +1, "is_zero": -1, "is_odd": +1},
    "Odd": {"is_odd": +1, "is_even": -1},
}

# callees that pass a truth value through unchanged (by resolved path or last segment)
TRUTH_PASS_SEG = {"is_true_vartime", "to_bool_vartime", "unwrap_u8", "to_u8", "black_box"}
TRUTH_PASS_PATH = {
    "subtle::<impl core::convert::From<subtle::Choice> for bool>::from",
    "const_choice::<impl core::convert::From<const_choice::ConstChoice> for subtle::Choice>::from",
    "const_choice::<impl core::convert::From<subtle::Choice> for const_choice::ConstChoice>::from",
    "const_choice::<impl core::convert::From<const_choice::ConstChoice> for bool>::from",
}
TRUTH_NOT_PATH = {
    "<subtle::Choice as core::ops::Not>::not",
    "const_choice::ConstChoice::not",
    "const_choice::<impl core::ops::Not for const_choice::ConstChoice>::not",
}

GATES = {"subtle::CtOption::<T>::new": (0, 1), "const_choice::ConstCtOption::<T>::new": (0, 1)}

CONJURE = ("core::mem::zeroed", "core::mem::transmute", "core::mem::transmute_copy",
           "core::mem::MaybeUninit::<T>::assume_init", "core::mem::MaybeUninit::<T>::zeroed",
           "core::ptr::read", "core::ptr::read_unaligned", "core::ptr::read_volatile",
           "core::intrinsics::transmute", "core::mem::take", "core::mem::replace", "core::mem::swap")

BACKDOOR_TRAITS = ("core::ops::DerefMut", "core::convert::AsMut", "core::borrow::BorrowMut",
                   "core::ops::IndexMut")

SELECTS = {"conditional_select", "ct_select", "select"}


def wrapper_of_ty(ty):
    a = mir.adt_of_ty(ty)
    return WRAPPERS.get(a)


class C12:
    def __init__(self, facts, report, config):
        self.f = facts
        self.r = report
        self.cfg = config
        self.tab = load_table("c12_sites.toml")
        self.vp = set(self.tab.get("value_preserving", {}).get("callees", []))
        self.newtypes = self.tab.get("transparent_newtypes", {})
        self.valid_consts = self.tab.get("valid_constants", {})
        self.reviewed = {e["key"]: e for e in self.tab.get("reviewed", [])}
        self.used_reviewed = set()

    # ------------------------------------------------------------------------------------
    def truth_chain(self, view, prov, op, depth=0):
        """Follow a boolean/Choice value back to an invariant predicate.
        Returns (pred_last_segment, receiver_roots, negated) or None."""
        if depth > 12:
            return None
        roots = mir.uniq_roots(prov.roots_of_operand(op))
        if len(roots) != 1:
            return None
        r = roots[0]
        if r.path:
            return None
        if r.kind == "call":
            bb = r.site[0]
            t = view.blocks[bb]["term"]
            name = mir.callee_name(t)
            seg = mir.last_seg(name)
            decl_seg = mir.last_seg(mir.callee_decl(t))
            if name in TRUTH_NOT_PATH or (seg == "not" and len(t["args"]) == 1):
                sub = self.truth_chain(view, prov, t["args"][0], depth + 1)
                if sub is None:
                    return None
                return (sub[0], sub[1], not sub[2])
            if name in TRUTH_PASS_PATH or seg in TRUTH_PASS_SEG or \
                    (decl_seg in ("from", "into") and len(t["args"]) == 1 and self._is_truth_ty(view, t)):
                return self.truth_chain(view, prov, t["args"][0], depth + 1)
            for s in (seg, decl_seg):
                if s in PRED["NonZero"] or s in PRED["Odd"]:
                    if not t["args"]:
                        return None
                    recv = mir.uniq_roots(prov.roots_of_operand(t["args"][0]))
                    return (s, recv, False)
            return None
        if r.kind == "op" and r.what == "Not":
            bb, idx = r.site
            rv = view.blocks[bb]["stmts"][idx][2]
            sub = self.truth_chain(view, prov, rv[2], depth + 1)
            if sub is None:
                return None
            return (sub[0], sub[1], not sub[2])
        return None

    def _is_truth_ty(self, view, t):
        dst = t["dst"]
        ty = view.locals[dst[0]]
        return ty in ("bool", "subtle::Choice", "const_choice::ConstChoice")

    def same_value(self, view, a_roots, b_roots):
        """Do the two provenance sets denote the same value (b possibly the transparent inner
        field of a)?"""
        if len(a_roots) != 1 or len(b_roots) != 1:
            return False
        a, b = a_roots[0], b_roots[0]
        if a.kind in ("multi", "unknown") or b.kind in ("multi", "unknown"):
            return False
        if a.key() == b.key():
            return True
        if (a.kind, a.what, a.site) == (b.kind, b.what, b.site) and len(b.path) == len(a.path) + 1 \
                and b.path[:len(a.path)] == a.path:
            # predicate applied to the single field of a transparent newtype (Int -> Uint)
            ty = None
            if a.kind == "param" and not a.path:
                ty = mir.adt_of_ty(view.locals[a.what])
            if ty in self.newtypes and self.newtypes[ty] == b.path[-1]:
                return True
        return False

    # ------------------------------------------------------------------------------------
    def derived(self, view, prov, roots, wrapper, depth=0):
        """All roots are the inner value of an already valid wrapper (possibly through
        value-preserving functions or a select of two such values)."""
        if not roots or depth > 6:
            return None
        hows = []
        for r in roots:
            if r.kind == "param":
                w = wrapper_of_ty(view.locals[r.what])
                if r.path == ("0",) and (w == wrapper or (wrapper == "NonZero" and w == "Odd")):
                    hows.append("inner value of parameter _%d: %s" % (r.what, view.locals[r.what]))
                    continue
                return None
            if r.kind == "const":
                ty = getattr(r, "ty", None)
                if r.path == ("0",):
                    # `.0` of a named constant: only constants of wrapper type can be projected so
                    cw = self.valid_consts.get("wrapper_typed", [])
                    if any(r.what == c or r.what.endswith(c) for c in cw):
                        hows.append("inner value of wrapper constant %s" % r.what)
                        continue
                return None
            if r.kind == "call":
                bb = r.site[0]
                t = view.blocks[bb]["term"]
                name = mir.callee_name(t)
                seg = mir.last_seg(name)
                if r.path not in ((), ):
                    # projecting a field out of a call result: only `.0` of a wrapper-typed result
                    w = wrapper_of_ty(view.locals[t["dst"][0]])
                    if r.path == ("0",) and (w == wrapper or (wrapper == "NonZero" and w == "Odd")):
                        hows.append("inner value of wrapper returned by %s" % name)
                        continue
                    return None
                if name in self.vp or norm_id(name) in self.vp:
                    sub = self.derived(view, prov, mir.uniq_roots(prov.roots_of_operand(t["args"][0])),
                                       wrapper, depth + 1)
                    if sub is None:
                        return None
                    hows.append("%s of (%s)" % (seg, sub))
                    continue
                if seg in SELECTS and len(t["args"]) == 3:
                    subs = []
                    for a in t["args"][:2]:
                        s = self.derived(view, prov, mir.uniq_roots(prov.roots_of_operand(a)), wrapper,
                                         depth + 1)
                        if s is None:
                            return None
                        subs.append(s)
                    hows.append("select of two valid inner values")
                    continue
                return None
            return None
        return "; ".join(sorted(set(hows)))

    def select_guarded(self, view, prov, roots, wrapper):
        """`select(VALID_CONSTANT, x, pred(x))` (or the mirrored form with a negated predicate): x when the invariant
        predicate holds for x, a valid constant otherwise."""
        if len(roots) != 1 or roots[0].kind != "call" or roots[0].path:
            return None
        t = view.blocks[roots[0].site[0]]["term"]
        seg = mir.last_seg(mir.callee_name(t)) or mir.last_seg(mir.callee_decl(t))
        if seg not in SELECTS or len(t["args"]) != 3:
            return None
        tc = self.truth_chain(view, prov, t["args"][2])
        if tc is None:
            return None
        pred, recv, negated = tc
        pol = PRED.get(wrapper, {}).get(pred)
        if pol is None:
            return None
        if wrapper == "Odd" and pred not in PRED["Odd"]:
            return None
        if negated:
            pol = -pol
        ra = mir.uniq_roots(prov.roots_of_operand(t["args"][0]))
        rb = mir.uniq_roots(prov.roots_of_operand(t["args"][1]))
        guarded, other = (rb, ra) if pol > 0 else (ra, rb)     # select(a, b, c) yields b when c holds
        oarg = t["args"][0] if pol > 0 else t["args"][1]
        same = self.same_value(view, recv, guarded)
        if not same and recv and guarded and {r.key() for r in recv} == {r.key() for r in guarded} and \
                all(r.kind not in ("multi", "unknown") for r in recv):
            same = True      # a loop-carried value: the predicate and the selected operand read the same variable
        if not same:
            return None
        how = self.const_valid(other, wrapper) or self.derived(view, prov, other, wrapper)
        if not how:
            inner = self._promoted_const(view, oarg)
            if inner and any(inner == c for c in self.valid_consts.get(wrapper, [])):
                how = "constant %s" % inner
        if not how:
            return None
        return "%s(.., .., %s%s(x)) yields x only when the predicate holds, else %s" % (
            seg, "!" if negated else "", pred, how)

    def _promoted_const(self, view, op):
        """`&CONST` is promoted into its own body: name of the constant a (re-borrowed) promoted reference refers to"""
        for _ in range(8):
            if op[0] == "k":
                break
            if op[0] not in ("c", "m"):
                return None
            l = op[1][0]
            nxt = None
            for bb in view.blocks:
                for st in bb["stmts"]:
                    if st[0] == "a" and st[1][0] == l and not st[1][1]:
                        if st[2][0] == "use":
                            nxt = st[2][1]
                        elif st[2][0] == "ref" and st[2][2][1] in (["*"], []):
                            nxt = ["c", [st[2][2][0], []]]
            if nxt is None:
                return None
            op = nxt
        if op[0] != "k" or op[5] is None:
            return None
        pb = self.f.bodies.get("%s::{promoted#%d}" % (op[3], op[5]))
        if not pb:
            return None
        for bb in pb["blocks"]:
            for st in bb["stmts"]:
                if st[0] == "a" and st[2][0] == "use" and st[2][1][0] == "k":
                    return st[2][1][3] or st[2][1][2]
        return None

    def const_valid(self, roots, wrapper):
        ok = self.valid_consts.get(wrapper, [])
        okc = self.valid_consts.get(wrapper + "_calls", [])
        if not roots:
            return None
        for r in roots:
            if r.path:
                return None
            if r.kind == "const" and any(r.what == c for c in ok):
                continue
            if r.kind == "call" and any(r.what == c for c in okc):
                continue
            return None
        return "constant %s" % ", ".join(sorted({str(r.what) for r in roots}))

    def core_nonzero(self, view, prov, roots, wrapper):
        """The value is core::num::NonZero<uN>::get() of something, converted exactly."""
        if wrapper != "NonZero" or not roots:
            return None
        for r in roots:
            if r.kind != "call" or r.path:
                return None
            n = r.what or ""
            if not (n.startswith("core::num::NonZero::<") or n.startswith("core::num::nonzero::NonZero::<")) \
                    or mir.last_seg(n) != "get":
                return None
        via = sorted({mir.last_seg(x) for r in roots for x in r.via})
        return "value of core::num::NonZero::get%s" % ((" through " + ",".join(via)) if via else "")

    # ------------------------------------------------------------------------------------
    def uses_of(self, view, local):
        """(bb, kind, detail) for every read of `local` as a whole (moves/copies followed)."""
        out = []
        work = [local]
        seen = {local}
        while work:
            l = work.pop()
            for bi, bb in enumerate(view.blocks):
                if bb["cleanup"]:
                    continue
                for si, s in enumerate(bb["stmts"]):
                    if s[0] != "a":
                        continue
                    rv = s[2]
                    for op in _rv_operands(rv):
                        if op[0] in ("c", "m") and op[1][0] == l:
                            if rv[0] == "use" and not op[1][1] and not s[1][1]:
                                if s[1][0] not in seen:
                                    seen.add(s[1][0])
                                    work.append(s[1][0])
                            else:
                                out.append((bi, "stmt", s))
                    if rv[0] in ("ref", "rawptr", "cfd", "discr"):
                        pl = rv[2] if rv[0] in ("ref", "rawptr") else rv[1]
                        if pl[0] == l:
                            out.append((bi, "stmt", s))
                t = bb["term"]
                if t["k"] == "call":
                    for ai, a in enumerate(t["args"]):
                        if a[0] in ("c", "m") and a[1][0] == l:
                            out.append((bi, "callarg", (t, ai)))
                elif t["k"] == "switch" and t["op"][0] in ("c", "m") and t["op"][1][0] == l:
                    out.append((bi, "switch", t))
                elif t["k"] == "ret" and l == 0:
                    out.append((bi, "ret", t))
        if 0 in seen:
            out.append((-1, "ret", None))
        return out

    def gated(self, view, prov, dst_local, v_roots, wrapper):
        uses = self.uses_of(view, dst_local)
        if not uses:
            return None
        how = None
        for bi, kind, d in uses:
            if kind != "callarg":
                return None
            t, ai = d
            name = mir.callee_name(t)
            if name not in GATES or ai != GATES[name][0]:
                return None
            choice = t["args"][GATES[name][1]]
            tc = self.truth_chain(view, prov, choice)
            if tc is None:
                return None
            pred, recv, neg = tc
            pol = PRED[wrapper].get(pred)
            if pol is None:
                return None
            if not self.same_value(view, v_roots, recv):
                return None
            valid_when_true = (pol > 0) != neg
            if not valid_when_true:
                return None
            how = "only use is the value of %s whose choice is %s%s of the same value" % (
                mir.last_seg(name) and name.split("::<")[0], "!" if neg else "", pred)
        return how

    def guarded(self, view, prov, site_bb, v_roots, wrapper):
        doms = view.dominators(site_bb)
        for d in doms:
            t = view.blocks[d]["term"]
            if t["k"] != "switch" or len(t["t"]) != 2 or t["vals"] != ["0"]:
                continue
            tc = self.truth_chain(view, prov, t["op"])
            if tc is None:
                continue
            pred, recv, neg = tc
            pol = PRED[wrapper].get(pred)
            if pol is None or not self.same_value(view, v_roots, recv):
                continue
            valid_when_true = (pol > 0) != neg
            false_t, true_t = t["t"][0], t["t"][1]
            valid_t, invalid_t = (true_t, false_t) if valid_when_true else (false_t, true_t)
            if valid_t == invalid_t:
                continue
            if view.pred[valid_t] != [d]:
                continue
            if not view.dominates(valid_t, site_bb):
                continue
            exit_kind = "diverges" if view.diverges(invalid_t) else "returns without constructing"
            if exit_kind != "diverges" and view.can_reach(invalid_t, site_bb):
                continue
            return "dominated by the %s branch of `%s%s` on the same value; the other branch %s" % (
                "true" if valid_when_true else "false", "!" if neg else "", pred, exit_kind)
        return None

    # ------------------------------------------------------------------------------------
    def fingerprint(self, view, op):
        """Provenance fingerprint of the judged operand: its roots, and one level below each root
        (the callee's / operator's / aggregate's operands' roots). Names only, generics erased."""
        prov = mir.Provenance(view, self.vp)
        names = set()

        def short(r):
            if r.kind == "param":
                return "param:%d%s" % (r.what, "".join("." + x for x in r.path))
            if r.kind == "const":
                return "const:%s%s" % (norm_id(str(r.what)), "".join("." + x for x in r.path))
            if r.kind == "call":
                return "call:%s%s" % (norm_id(r.what), "".join("." + x for x in r.path))
            if r.kind == "multi":
                return "mutated-in-place"
            return "%s:%s" % (r.kind, r.what)

        def mutators(local_roots_site):
            bb, idx = local_roots_site
            if idx == "term":
                return
            st = view.blocks[bb]["stmts"][idx]
            if st[2][0] in ("ref", "rawptr"):
                bl = st[1][0]
                for bi, t in view.calls():
                    for a in t["args"]:
                        if a[0] in ("c", "m") and a[1][0] == bl:
                            names.add("mutby:" + norm_id(mir.callee_name(t) or "<indirect>"))
            else:
                names.add("mutby:store")

        roots = mir.uniq_roots(prov.roots_of_operand(op))
        for r in roots:
            names.add(short(r))
            for v in r.via:
                names.add("via:" + norm_id(v))
            subs = []
            if r.kind == "call" and r.site:
                t = view.blocks[r.site[0]]["term"]
                subs = list(t["args"])
            elif r.kind in ("op", "agg") and r.site and r.site[1] != "term":
                st = view.blocks[r.site[0]]["stmts"][r.site[1]]
                subs = _rv_operands(st[2])
            elif r.kind == "multi" and r.site:
                mutators(r.site)
            for a in subs:
                for r2 in mir.uniq_roots(prov.roots_of_operand(a)):
                    names.add("  <- " + short(r2))
                    if r2.kind == "multi" and r2.site:
                        mutators(r2.site)
        return sorted(names)

    # ------------------------------------------------------------------------------------
    def judge(self, key, rule, site, view, op, auto, detail):
        """Combine automatic discharge, reviewed table and violation."""
        if auto:
            self.r.add(Instance(key, rule, "ok", "auto: " + auto, site, detail), self.cfg)
            return
        fp = self.fingerprint(view, op) if op is not None else []
        detail = dict(detail, fingerprint=fp)
        e = self.reviewed.get(key)
        if e is not None:
            self.used_reviewed.add(key)
            if sorted(e.get("fingerprint", [])) == fp:
                self.r.add(Instance(key, rule, "reviewed", "reviewed: " + e["reason"], site, detail), self.cfg)
                return
            detail["expected_fingerprint"] = sorted(e.get("fingerprint", []))
            self.r.add(Instance(key, rule, "violation",
                                "reviewed entry invalidated: provenance of the wrapped value changed "
                                "(was %s, now %s)" % (sorted(e.get("fingerprint", [])), fp), site, detail),
                       self.cfg)
            return
        self.r.add(Instance(key, rule, "violation", detail.get("why", "unreviewed site"), site, detail), self.cfg)

    # ------------------------------------------------------------------------------------
    def run(self):
        f = self.f
        ordn = {}

        def nextkey(rule, bid, what):
            k0 = "%s|%s|%s" % (rule, norm_id(bid), what)
            n = ordn.get(k0, 0)
            ordn[k0] = n + 1
            return "%s|%d" % (k0, n)

        for b in f.body_list:
            if b["kind"] in ("AnonConst",):
                continue
            view = mir.BodyView(b)
            prov = None
            for bi, bb in enumerate(b["blocks"]):
                if bb["cleanup"]:
                    continue
                for si, s in enumerate(bb["stmts"]):
                    if s[0] != "a":
                        continue
                    place, rv = s[1], s[2]
                    # --- creation by aggregate
                    if rv[0] == "agg" and rv[2] in WRAPPERS:
                        wrapper = WRAPPERS[rv[2]]
                        prov = prov or mir.Provenance(view, self.vp)
                        op = rv[4][0]
                        roots = mir.uniq_roots(prov.roots_of_operand(op))
                        for r0 in roots:
                            if r0.kind == "const" and op[0] == "k":
                                r0.__class__ = RootT
                        key = nextkey("c12.create", b["id"], rv[2])
                        self.r.count("creation_sites")
                        detail = {"body": b["id"], "wrapper": wrapper, "roots": [repr(r) for r in roots]}
                        auto = (self.derived(view, prov, roots, wrapper)
                                or self.const_valid(roots, wrapper)
                                or self.core_nonzero(view, prov, roots, wrapper))
                        if auto:
                            auto = "derived: " + auto if not auto.startswith(("constant", "value of core")) else auto
                        if not auto and not place[1]:
                            g = self.gated(view, prov, place[0], roots, wrapper)
                            if g:
                                auto = "gated: " + g
                        if not auto:
                            g = self.guarded(view, prov, bi, roots, wrapper)
                            if g:
                                auto = "guarded: " + g
                        if not auto:
                            g = self.select_guarded(view, prov, roots, wrapper)
                            if g:
                                auto = "select-guarded: " + g
                        if not auto and wrapper == "Odd":
                            g = low_bit_forced(view, op, bi)
                            if g:
                                auto = "low bit forced: " + g
                        detail["why"] = ("%s(..) built from %s with no dominating/gating invariant check on "
                                         "that value and no valid-wrapper provenance" % (wrapper, detail["roots"]))
                        self.judge(key, "c12.create", s[3], view, op, auto, detail)
                    # --- in-place mutation: store into the wrapped field
                    wproj = _wrapper_field(place[1])
                    if wproj:
                        self.r.count("mutation_sites")
                        key = nextkey("c12.mutate", b["id"], wproj)
                        ops = _rv_operands(rv)
                        self.judge(key, "c12.mutate", s[3], view, ops[0] if ops else None, None,
                                   {"body": b["id"], "what": "store into the wrapped field of a %s" % wproj,
                                    "why": "assignment through the inner field of %s outside any constructor" % wproj})
                    if rv[0] in ("ref", "rawptr") and (rv[1] == "mut" or "Mut" in rv[1]):
                        wproj = _wrapper_field(rv[2][1])
                        if wproj:
                            self.r.count("mutation_sites")
                            key = nextkey("c12.mutborrow", b["id"], wproj)
                            # discharge: the borrow never reaches a call / store (pure reborrow for reading)
                            self.judge(key, "c12.mutborrow", s[3], view, ["c", [rv[2][0], []]], None,
                                       {"body": b["id"],
                                        "what": "&mut borrow of the wrapped field of a %s" % wproj,
                                        "why": "&mut to the inner value of %s escapes to code that may store an "
                                               "invalid value" % wproj})
                    # --- owned pointer (Box) copied out of the wrapped field, then written through
                    if rv[0] in ("use", "cfd") and not place[1]:
                        srcp = rv[1][1] if rv[0] == "use" and rv[1][0] in ("c", "m") else (rv[1] if rv[0] == "cfd" else None)
                        if srcp is not None and _wrapper_field(srcp[1]) and _is_owning_ptr(view.locals[place[0]]):
                            wsite = _written_through(view, place[0])
                            if wsite:
                                w = _wrapper_field(srcp[1])
                                self.r.count("mutation_sites")
                                key = nextkey("c12.mutate", b["id"], w)
                                self.judge(key, "c12.mutate", wsite, view, ["c", [srcp[0], []]], None,
                                           {"body": b["id"],
                                            "what": "store through a pointer read out of the wrapped field of a %s" % w,
                                            "why": "heap storage of the value inside %s is written in place outside any constructor" % w})
                    # --- reinterpreting casts to a wrapper pointer
                    if rv[0] == "cast" and rv[1] in ("PtrToPtr", "Transmute"):
                        tgt = rv[3]
                        w = None
                        for path, nm in WRAPPERS.items():
                            if (path + "<") in tgt:
                                w = nm
                        src_ty = None
                        if rv[2][0] in ("c", "m"):
                            src_ty = view.locals[rv[2][1][0]]
                        if w and not (src_ty and any((p + "<") in src_ty for p in WRAPPERS if WRAPPERS[p] == w)):
                            prov = prov or mir.Provenance(view, self.vp)
                            roots = mir.uniq_roots(prov.roots_of_operand(rv[2]))
                            self.r.count("cast_sites")
                            key = nextkey("c12.cast", b["id"], w)
                            auto = self.derived(view, prov, roots, w)
                            self.judge(key, "c12.cast", s[3], view, rv[2],
                                       ("derived: " + auto) if auto else None,
                                       {"body": b["id"], "roots": [repr(r) for r in roots], "target": tgt,
                                        "why": "pointer reinterpreted as %s without valid-wrapper provenance" % w})
                t = bb["term"]
                if t["k"] == "call":
                    name = mir.callee_name(t)
                    if name and any(name.startswith(c) for c in CONJURE):
                        ga = (t["f"].get("gargs") or "") + " " + view.locals[t["dst"][0]]
                        if any(p in ga for p in WRAPPERS):
                            self.r.count("conjure_sites")
                            key = nextkey("c12.conjure", b["id"], norm_id(name))
                            self.judge(key, "c12.conjure", t["s"], view, None, None,
                                       {"body": b["id"], "why": "%s instantiated at a wrapper type" % name})
            # fn-item uses of the tuple constructors (e.g. `.map(NonZero)`)
            for o in _all_consts(b):
                if o[4] and "Ctor" in o[4] and o[3] and any(o[3].startswith(p) for p in WRAPPERS):
                    self.r.count("ctor_fn_uses")
                    key = nextkey("c12.ctorfn", b["id"], o[3])
                    self.r.add(Instance(key, "c12.ctorfn", "violation",
                                        "tuple constructor %s used as a function value: the wrapped value "
                                        "is not visible to the checker" % o[3], b["span"],
                                        {"body": b["id"]}), self.cfg)

        self.vp_fingerprints()
        self.back_doors()
        for k in self.reviewed:
            if k not in self.used_reviewed:
                self.r.stale.append({"table": "c12_sites.toml", "key": k, "config": self.cfg})

    # ------------------------------------------------------------------------------------
    def vp_fingerprints(self):
        """The automatic `derived` discharge trusts the in-crate callees listed as value-preserving. A
        conversion that silently drops part of the value breaks that trust, so each such function is checked
        for truncating constructs: a `zip` of two sequences without an aborting length assertion, or a call to a shortening routine (narrowing casts are not judged: `from_u128` legitimately
        splits its argument into limbs). (Not a fingerprint: re-routing or restructuring the
        conversion without such a construct changes nothing.)"""
        INT_BITS = {"u8": 8, "u16": 16, "u32": 32, "u64": 64, "u128": 128, "usize": 64, "i8": 8, "i16": 16, "i32": 32,
                    "i64": 64, "i128": 128, "isize": 64}
        for b in self.f.fn_bodies():
            n = norm_id(b["id"])
            if n not in self.vp or b["kind"] == "Closure":
                continue
            view = mir.BodyView(b)
            self.r.count("value_preserving_functions_checked")
            key = "c12.vpfn|%s" % n
            problems = []
            has_len_assert = any(view.abort_guard(i) for i in view.live_blocks())
            for bi, t in view.calls():
                if view.blocks[bi]["cleanup"]:
                    continue
                seg = mir.last_seg(mir.callee_decl(t))
                if seg == "zip" and not has_len_assert:
                    problems.append("`zip` of two sequences (stops at the shorter) with no aborting length assertion")
                if seg in ("shorten", "truncate", "split_at", "split", "resize") and n.split("::")[-1] not in ("shorten",):
                    problems.append("calls `%s`" % seg)
                if seg in ("copy_from_slice", "clone_from_slice") and len(t["args"]) >= 2:
                    # the copied *source* must be the whole value: a sub-slice of it drops limbs
                    from .capguard import SliceProv
                    sp = SliceProv(view)
                    sliced = sorted({mir.last_seg(v) for r in mir.uniq_roots(sp.roots_of_operand(t["args"][1]))
                                     for v in r.via if mir.last_seg(v) in ("index", "index_mut", "get", "get_unchecked",
                                                                             "split_at", "split_first", "split_last")})
                    if sliced:
                        problems.append("copies only a sub-slice of the source (through `%s`)" % "`, `".join(sliced))
            if problems:
                self.r.add(Instance(key, "c12.vpfn", "violation",
                                    "`%s` is assumed value-preserving by the NonZero/Odd `derived` rule but contains a "
                                    "truncating construct: %s" % (b["id"], "; ".join(sorted(set(problems)))), b["span"],
                                    {"problems": sorted(set(problems))}), self.cfg)
            else:
                self.r.add(Instance(key, "c12.vpfn", "ok", "auto: no truncating construct (unguarded zip, narrowing cast, "
                                    "shortening call) in the assumed value-preserving conversion", b["span"], {}), self.cfg)

    # ------------------------------------------------------------------------------------
    def back_doors(self):
        f = self.f
        for path in WRAPPERS:
            adt = f.adts.get(path)
            self.r.require(adt is not None, "anchor missing: ADT %s not found in facts" % path)
            if adt is None:
                continue
            fields = adt["variants"][0]["fields"]
            self.r.count("wrapper_fields", len(fields))
            for fld in fields:
                key = "c12.field|%s|%s" % (path, fld["name"])
                if fld["pub"]:
                    self.r.add(Instance(key, "c12.field", "violation",
                                        "field %s of %s is public: any value can be stored" % (fld["name"], path),
                                        adt["span"]), self.cfg)
                else:
                    self.r.add(Instance(key, "c12.field", "ok", "auto: field is not public", adt["span"]), self.cfg)
        deref_seen = 0
        for im in f.impls:
            w = WRAPPERS.get(mir.adt_of_ty(im["self"]) or "")
            if not w or mir.peel_refs(im["self"]) != im["self"]:
                continue
            tr = im["trait"]
            if tr == "core::ops::Deref":
                deref_seen += 1
            if tr in BACKDOOR_TRAITS:
                key = "c12.backdoor|%s|%s" % (norm_id(im["self"]), tr)
                self.r.add(Instance(key, "c12.backdoor", "violation",
                                    "impl %s for %s hands out &mut to the wrapped value" % (tr, im["self"]),
                                    im["span"]), self.cfg)
        self.r.count("deref_impls_positive_control", deref_seen)
        # public functions that return &mut while taking a wrapper by &mut
        for b in f.fn_bodies():
            if not b.get("reach") or b["kind"] == "Closure":
                continue
            so = b.get("sig_out") or ""
            si = b.get("sig_in") or []
            takes = [t for t in si if t.startswith("&mut ") and wrapper_of_ty(t)]
            if takes:
                self.r.count("pub_mut_self_methods")
                if "&mut" in so or "*mut" in so:
                    key = "c12.mutout|%s" % norm_id(b["id"])
                    self.r.add(Instance(key, "c12.mutout", "violation",
                                        "public function returns %s derived from %s" % (so, takes[0]),
                                        b["span"], {"body": b["id"]}), self.cfg)
                else:
                    key = "c12.mutself|%s" % norm_id(b["id"])
                    # it is fine iff it contains no mutation site: those are instances of R1 already
                    self.r.add(Instance(key, "c12.mutself", "info",
                                        "public &mut method on a wrapper; its stores are R1 instances",
                                        b["span"], {"body": b["id"]}), self.cfg)


class RootT(mir.Root):
    __slots__ = ()


def _copy_chain(view, op):
    """[(local, block where it is copied onwards)] for an operand that is a chain of plain copies / moves:
    the operand's own local first (copied onwards at the use site = None), then its sources"""
    out = []
    if op[0] not in ("c", "m") or op[1][1]:
        return out
    cur = op[1][0]
    onward = None
    for _ in range(5):
        out.append((cur, onward))
        defs = []
        for bi, bb in enumerate(view.blocks):
            if bb["cleanup"]:
                continue
            for s in bb["stmts"]:
                if s[0] == "a" and s[1][0] == cur and not s[1][1]:
                    defs.append((bi, s[2]))
        if len(defs) == 1 and defs[0][1][0] == "use" and defs[0][1][1][0] in ("c", "m") and not defs[0][1][1][1][1]:
            onward = defs[0][0]
            cur = defs[0][1][1][1][0]
        else:
            break
    return out


def _const_zero(view, local):
    for bb in view.blocks:
        for s in bb["stmts"]:
            if s[0] == "a" and s[1][0] == local and not s[1][1]:
                rv = s[2]
                return rv[0] == "use" and rv[1][0] == "k" and str(rv[1][2]).split("_")[0] == "0"
    return False


def low_bit_forced(view, op, site_bb):
    """`v.limbs[0] |= Limb::ONE` (or `v |= ONE`) on the wrapped value, dominating the construction and not followed
    by another mutation of v: x | 1 is odd whatever x is."""
    for v, onward in _copy_chain(view, op):
        g = _low_bit_forced_on(view, v, site_bb, onward)
        if g:
            return g
    return None


def _low_bit_forced_on(view, v, site_bb, onward):
    or_site = None
    mut_blocks = []
    refs = {}
    # Box / pointer temporaries copied out of the value (how MIR reaches `v.limbs[i]` of a boxed slice)
    ptrs = set()
    changed = True
    while changed:
        changed = False
        for bb in view.blocks:
            if bb["cleanup"]:
                continue
            for s in bb["stmts"]:
                if s[0] != "a" or s[1][1] or s[1][0] in ptrs or s[1][0] == v:
                    continue
                rv = s[2]
                src = rv[1][1] if rv[0] == "use" and rv[1][0] in ("c", "m") else (
                    rv[2][1] if rv[0] == "cast" and rv[2][0] in ("c", "m") else None)
                if src is not None and (src[0] == v or src[0] in ptrs) and \
                        all(isinstance(pe, list) and pe[0] == "f" for pe in src[1]) and \
                        (src[0] in ptrs or src[1]) and mir.is_ptr_ty(view.locals[s[1][0]]) | ("Box<" in view.locals[s[1][0]]):
                    ptrs.add(s[1][0])
                    changed = True
    for bi, bb in enumerate(view.blocks):
        if bb["cleanup"]:
            continue
        for s in bb["stmts"]:
            if s[0] != "a":
                continue
            if s[1][0] == v and s[1][1]:
                mut_blocks.append(bi)
            if s[1][0] in ptrs and s[1][1]:
                mut_blocks.append(bi)
            rv = s[2]
            if rv[0] in ("ref", "rawptr") and (rv[1] == "mut" or "Mut" in str(rv[1])) and not s[1][1] and \
                    (rv[2][0] == v or rv[2][0] in ptrs):
                refs[s[1][0]] = (bi, [pe for pe in rv[2][1] if pe != "*"])
                mut_blocks.append(bi)
    for bi, t in view.calls():
        if view.blocks[bi]["cleanup"] or mir.last_seg(mir.callee_decl(t)) != "bitor_assign" or len(t["args"]) != 2:
            continue
        a0, a1 = t["args"]
        if a0[0] not in ("c", "m") or a0[1][1] or a0[1][0] not in refs:
            continue
        if a1[0] != "k" or not str(a1[3] or "").endswith("::ONE"):
            continue
        rbi, proj = refs[a0[1][0]]
        ok = True
        for pe in proj:
            if isinstance(pe, list) and pe[0] == "i":
                ok = ok and _const_zero(view, pe[1])
            elif isinstance(pe, list) and pe[0] == "ci":
                ok = ok and pe[1] == 0 and not pe[2]
            elif isinstance(pe, list) and pe[0] == "f":
                continue
            else:
                ok = False
        if ok and view.dominates(bi, site_bb):
            or_site = (bi, rbi, t["s"])
    if or_site is None:
        return None
    bi, rbi, span = or_site
    if onward is not None and not (view.dominates(bi, onward) and onward != bi):
        return None     # the value was copied onwards before the low bit was forced
    for mb in mut_blocks:
        if mb != rbi and not (view.dominates(mb, bi) and mb != bi):
            return None
    return "`|= ONE` on the lowest limb at %s dominates the construction and is the last mutation" % span


def _wrapper_field(proj):
    """If the projection passes through field 0 of a NonZero/Odd, return that wrapper's name."""
    for e in proj:
        if e != "*" and e[0] == "f" and len(e) > 3 and e[3] in WRAPPERS:
            return WRAPPERS[e[3]]
    return None


def _is_owning_ptr(ty):
    return ty.startswith(("alloc::boxed::Box<", "*mut ", "&mut ", "alloc::vec::Vec<", "core::ptr::non_null::NonNull<",
                          "core::ptr::unique::Unique<"))


def _written_through(view, local):
    """Is memory behind pointer `local` (followed through copies, casts and field reads of the pointer
    wrapper) written: assignment through a deref, or a &mut reborrow of it? Returns the span."""
    derived = {local}
    changed = True
    while changed:
        changed = False
        for bb in view.blocks:
            for s in bb["stmts"]:
                if s[0] != "a" or s[1][1]:
                    continue
                rv = s[2]
                src = None
                if rv[0] == "use" and rv[1][0] in ("c", "m"):
                    src = rv[1][1]
                elif rv[0] == "cast" and rv[2][0] in ("c", "m"):
                    src = rv[2][1]
                elif rv[0] == "cfd":
                    src = rv[1]
                elif rv[0] in ("ref", "rawptr"):
                    src = rv[2]
                if src is not None and src[0] in derived and s[1][0] not in derived:
                    derived.add(s[1][0])
                    changed = True
    for bb in view.blocks:
        if bb["cleanup"]:
            continue
        for s in bb["stmts"]:
            if s[0] != "a":
                continue
            if s[1][0] in derived and mir.has_deref(s[1][1]):
                return s[3]
            rv = s[2]
            if rv[0] in ("ref", "rawptr") and (rv[1] == "mut" or "Mut" in rv[1]) and rv[2][0] in derived \
                    and mir.has_deref(rv[2][1]):
                return s[3]
        t = bb["term"]
        if t["k"] == "call" and t["dst"][0] in derived and mir.has_deref(t["dst"][1]):
            return t["s"]
    return None


def _rv_operands(rv):
    k = rv[0]
    if k in ("use",):
        return [rv[1]]
    if k == "repeat":
        return [rv[1]]
    if k == "cast":
        return [rv[2]]
    if k == "bin":
        return [rv[2], rv[3]]
    if k == "un":
        return [rv[2]]
    if k == "agg":
        return list(rv[4])
    return []


def _all_consts(b):
    out = []

    def scan(o):
        if isinstance(o, list):
            if len(o) == 7 and o[0] == "k":
                out.append(o)
                return
            for x in o:
                scan(x)
        elif isinstance(o, dict):
            for x in o.values():
                scan(x)

    scan(b["blocks"])
    return out
