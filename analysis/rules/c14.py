"""Two shape-level clauses of C14 (signed division: n = q*d + r with the flavour's sign convention).

(a) `c14.remsign` — whose sign decides the remainder's sign.  Every signed division routine computes the remainder's
magnitude on absolute values and then negates it under a choice: `remainder.as_int().wrapping_neg_if(choice)`.  For the
truncating flavours the remainder takes the sign of the DIVIDEND (sign(r) in {0, sign(n)}), for the flooring flavours the
sign of the DIVISOR (sign(r) in {0, sign(d)}).  The choice is chased back through `ConstChoice` combinators
(xor / and / or / not) to the `.1` results of `abs_sign` calls, and each of those to the parameter it was taken from:
a flooring routine whose remainder sign is decided (also) by the dividend's sign, or a truncating routine whose remainder
sign is decided (also) by the divisor's sign, returns a remainder with the wrong sign for one of the four sign
combinations — `n = q*d + r` cannot hold there.  (A choice that mentions both signs is wrong in either flavour: for fixed
|n|, |d| with a non-zero remainder, flipping the sign of the *other* operand must not flip the remainder's sign.)

(b) `c14.remwidth` — a remainder modulo an unsigned divisor of `R` limbs can need all 64*R bits; reinterpreting it as
`Int<R>` (`as_int`) is only safe when something bounds it by 2^(64R-1): a signed divisor (|d| <= 2^(64R-1)) or a dividend
of the same width (r <= |n| <= 2^(n-1)).  In a routine generic over an independent divisor width whose divisor is a
`Uint`, neither bound exists: for a dividend wider than the divisor the top bit of the remainder becomes a sign bit.
"""
import re

from .. import mir
from ..common import Instance, norm_id

COMB = {"xor", "and", "or", "not", "clone"}
FLOOR = re.compile(r"floor")
SCOPE = re.compile(r"^int::(div|div_uint)::")


def _sign_params(view, prov, op, depth=0, seen=None, facts=None):
    """parameters whose `abs_sign().1` (or `is_negative`) the choice operand is built from; None when anything else
    feeds it"""
    seen = seen if seen is not None else set()
    out = set()
    for r in mir.uniq_roots(prov.roots_of_operand(op)):
        if r.kind == "call" and r.site is not None:
            t = view.blocks[r.site[0]]["term"]
            seg = mir.last_seg(mir.callee_name(t)) or ""
            if seg in ("abs_sign",) and r.path and r.path[-1] == "1" or seg in ("is_negative",):
                ps = {x.what for x in mir.uniq_roots(prov.roots_of_operand(t["args"][0])) if x.kind == "param"}
                if not ps:
                    return None
                out |= ps
            elif facts is not None and r.path and r.path[-1].isdigit() and t["f"].get("res") in facts.bodies and depth < 3:
                # a sign handed back by an in-crate helper as a tuple component (div_rem_base: (q, r, lhs_sgn, rhs_sgn)):
                # resolve it inside the helper and map the helper's parameters to this call's arguments
                cb = facts.bodies[t["f"]["res"]]
                cv = mir.BodyView(cb)
                cp = mir.Provenance(cv)
                inner = None
                for d in cv.defs.get(0, []):
                    rv = d.get("rv")
                    if rv and rv[0] == "agg" and int(r.path[-1]) < len(rv[4]):
                        got = _sign_params(cv, cp, rv[4][int(r.path[-1])], depth + 1, set(), facts)
                        inner = got if inner is None or got is None else inner | got
                        if got is None:
                            inner = None
                            break
                if inner is None:
                    return None
                for j in inner:
                    if j - 1 >= len(t["args"]):
                        return None
                    ps = {x.what for x in mir.uniq_roots(prov.roots_of_operand(t["args"][j - 1])) if x.kind == "param"}
                    if not ps:
                        return None
                    out |= ps
            elif seg in COMB and depth < 6 and r.site not in seen:
                seen.add(r.site)
                for a in t["args"]:
                    sub = _sign_params(view, prov, a, depth + 1, seen, facts)
                    if sub is None:
                        return None
                    out |= sub
            else:
                return None
        elif r.kind == "const":
            continue
        else:
            return None
    return out


def run(facts, report, config):
    for b in facts.fn_bodies():
        if b["kind"] == "Closure" or not SCOPE.match(b["id"]) or b.get("derived"):
            continue
        view = mir.BodyView(b)
        if view.argc < 2:
            continue
        prov = mir.Provenance(view)
        floor = bool(FLOOR.search(b.get("name") or ""))
        n = 0
        for bi, t in view.calls():
            if view.blocks[bi]["cleanup"]:
                continue
            seg = mir.last_seg(mir.callee_name(t)) or ""
            if seg == "wrapping_neg_if" and len(t["args"]) == 2:
                # only the negation applied to a value that came out of `as_int` (the remainder; quotients go through
                # new_from_abs_sign / Self(..))
                r0 = mir.uniq_roots(prov.roots_of_operand(t["args"][0]))
                if not any(r.kind == "call" and (mir.last_seg(r.what) or "") == "as_int" for r in r0):
                    continue
                report.count("signed_remainder_negations")
                key = "c14.remsign|%s|%d" % (norm_id(b["id"]), n)
                n += 1
                ps = _sign_params(view, prov, t["args"][1], facts=facts)
                want = 2 if floor else 1
                if ps is None:
                    report.add(Instance(key, "c14.remsign", "info", "the negation choice is not built from operand signs "
                                        "alone: not judged", t["s"], {"body": b["id"]}), config)
                elif ps == {want}:
                    report.add(Instance(key, "c14.remsign", "ok", "auto: the remainder takes the sign of the %s (%s flavour)" % (
                        "divisor" if floor else "dividend", "flooring" if floor else "truncating"), t["s"], {"body": b["id"]}),
                        config)
                else:
                    report.add(Instance(key, "c14.remsign", "violation",
                                        "`%s` (%s division) negates its remainder under a choice built from the sign(s) of "
                                        "parameter(s) %s: the remainder must take the sign of the %s alone (sign(r) in {0, sign(%s)}), "
                                        "so for one of the four sign combinations r has the wrong sign and n = q*d + r fails "
                                        "(e.g. -8 and 3: q = -3 needs r = +1)" % (
                                            b.get("name"), "flooring" if floor else "truncating", sorted(ps),
                                            "divisor" if floor else "dividend", "d" if floor else "n"),
                                        t["s"], {"body": b["id"]}), config)
            if seg == "as_int" and t["args"]:
                a = t["args"][0]
                if a[0] == "k":
                    continue
                ty = mir.peel_refs(view.locals[a[1][0]]) if not a[1][1] else ""
                m = re.match(r"uint::Uint<([A-Z][A-Z0-9_]*)>$", ty or "")
                if not m or m.group(1) == "LIMBS":
                    continue
                # an independent width parameter; is the divisor unsigned?
                divisor_unsigned = any("uint::Uint<%s>" % m.group(1) in view.locals[i] for i in range(1, view.argc + 1))
                key = "c14.remwidth|%s" % norm_id(b["id"])
                report.count("mixed_width_remainder_reinterpretations")
                if divisor_unsigned:
                    report.add(Instance(key, "c14.remwidth", "violation",
                                        "`%s` reinterprets a remainder of type `%s` as a signed integer of the same width, but the "
                                        "divisor is an unsigned `%s` of independent width: the remainder is bounded by the divisor "
                                        "only and can need all of its bits (dividend 2^63 + 1 of two limbs, divisor u64::MAX: the "
                                        "remainder 2^63 + 1 reads as negative)" % (b.get("name"), ty, ty), t["s"],
                                        {"body": b["id"]}), config)
                else:
                    report.add(Instance(key, "c14.remwidth", "ok", "auto: the divisor is signed, |d| <= 2^(bits-1) bounds the "
                                        "remainder", t["s"], {"body": b["id"]}), config)


ADJUST = {"wrapping_sub", "wrapping_add"}
NONZERO = {"is_nonzero", "is_zero"}


def _choice_calls(view, prov, op, depth=0, seen=None, facts=None):
    """last segments of the calls a choice operand is built from (through ConstChoice combinators and, one level, helper
    tuples are NOT followed: a sign or a flag handed back by a helper is a leaf)"""
    seen = seen if seen is not None else set()
    out = set()
    for r in mir.uniq_roots(prov.roots_of_operand(op)):
        if r.kind == "call" and r.site is not None:
            t = view.blocks[r.site[0]]["term"]
            seg = mir.last_seg(mir.callee_name(t)) or ""
            if seg in COMB | {"ne", "eq"} and depth < 6 and r.site not in seen:
                seen.add(r.site)
                for a in t["args"]:
                    out |= _choice_calls(view, prov, a, depth + 1, seen, facts)
            elif facts is not None and seg not in NONZERO and t["f"].get("res") in facts.bodies and depth < 4 and \
                    "Choice" in (view.locals[t["dst"][0]] or ""):
                # a private helper that returns the gate (`floor_adjustment(&remainder, lhs_sgn)`): what it is built from
                cb = facts.bodies[t["f"]["res"]]
                cv = mir.BodyView(cb)
                out |= _choice_calls(cv, mir.Provenance(cv), ("c", (0, [])), depth + 1, set(), facts) - {"?"}
                out.add(seg)
            else:
                out.add(seg)
        elif r.kind != "const":
            out.add("?")
    return out


def run_reminv(facts, report, config):
    """(e) `c14.reminv` — the flooring corrections (quotient + 1, remainder := |d| - r) apply only when the remainder is
    non-zero: for an exact division `|d| - 0 = |d|` is outside [0, |d|) and the quotient is already exact.  Every `select`
    in a flooring routine whose alternative comes out of a `wrapping_add` / `wrapping_sub` must therefore be gated by a
    choice built (also) from the remainder's `is_nonzero` test; a gate built from signs alone is wrong for every exact
    division with the triggering sign."""
    for b in facts.fn_bodies():
        if b["kind"] == "Closure" or not SCOPE.match(b["id"]) or b.get("derived") or not FLOOR.search(b.get("name") or ""):
            continue
        view = mir.BodyView(b)
        prov = mir.Provenance(view)
        n = 0
        for bi, t in view.calls():
            if view.blocks[bi]["cleanup"] or (mir.last_seg(mir.callee_name(t)) or "") != "select" or len(t["args"]) != 3:
                continue
            alt = mir.uniq_roots(prov.roots_of_operand(t["args"][1]))
            if not any(r.kind == "call" and (mir.last_seg(r.what) or "") in ADJUST for r in alt):
                continue
            report.count("floor_corrections")
            key = "c14.reminv|%s|%d" % (norm_id(b["id"]), n)
            n += 1
            calls = _choice_calls(view, prov, t["args"][2], facts=facts)
            if calls & NONZERO:
                report.add(Instance(key, "c14.reminv", "ok", "auto: the correction is gated by the remainder's non-zero test",
                                    t["s"], {"body": b["id"]}), config)
            elif "?" in calls:
                report.add(Instance(key, "c14.reminv", "info", "gate not built from calls alone: not judged", t["s"],
                                    {"body": b["id"]}), config)
            else:
                report.add(Instance(key, "c14.reminv", "violation",
                                    "`%s` applies a flooring correction (the alternative of this select comes out of a wrapping "
                                    "add / sub) under a choice built from %s only — not from the remainder's non-zero test: for an "
                                    "exact division with the triggering sign the quotient is bumped / the remainder becomes |d|, "
                                    "outside [0, |d|)" % (b.get("name"), sorted(calls) or ["constants"]), t["s"],
                                    {"body": b["id"]}), config)
