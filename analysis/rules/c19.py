"""C19 (three structural clauses) — random sampling.

(a) rejection guard: every modular sampler (a function with a `modulus` parameter and an RNG parameter) reaches its
    successful return only through the *true* edge of a branch on `candidate < modulus` (`ct_lt(candidate, modulus)`
    or the mirrored `ct_gt(modulus, candidate)`), or forwards its modulus to a function that does.
(b) bit-length guard: every `try_random_bits_with_precision` owns a rejecting branch that depends on `bit_length`
    (and one on `bits_precision` where the type has a fixed width), or forwards both to a function that does.
(Stream agreement between the fixed and boxed samplers is *not* checked: "both call the same core routine" is not a
necessary condition of identical stream consumption — an inlined copy would behave the same — so a rule on it would
fire on behaviour-preserving edits. `run_c` is kept as an informational report only.)

None of this decides the values drawn (masks, uniformity, which bytes are requested).
"""
from .. import mir, flow
from ..common import Instance, norm_id
from .c16 import _error_region, RoundPolicy

PASS_SEGS = {"into", "from", "to_bool_vartime", "is_true_vartime", "unwrap_u8", "to_bool", "clone"}
LT = {"ct_lt": False, "lt": False, "ct_gt": True, "gt": True}
VP = {"as_ref", "deref", "borrow", "as_nz_ref", "clone", "as_mut", "deref_mut", "get"}


class RProv(mir.Provenance):
    def is_vp(self, term):
        if super().is_vp(term):
            return True
        return (mir.last_seg(mir.callee_decl(term)) or "") in VP and len(term["args"]) >= 1


def _param_named(b, name):
    for k, v in (b.get("names") or {}).items():
        if v == name and int(k) <= b["argc"]:
            return int(k)
    return None


def _single_def(view, local):
    """the unique statement / call that defines a temporary"""
    found = []
    for bi, bb in enumerate(view.blocks):
        if bb["cleanup"]:
            continue
        for s in bb["stmts"]:
            if s[0] == "a" and s[1][0] == local and not s[1][1]:
                found.append(("stmt", s[2]))
        t = bb["term"]
        if t["k"] == "call" and t["dst"][0] == local and not t["dst"][1]:
            found.append(("call", t))
    return found[0] if len(found) == 1 else None


def _comparison_of(view, op):
    """chase a switch operand back to a `<` comparison call: (call term, negated, swapped) or None"""
    neg = False
    cur = op
    for _ in range(12):
        if cur[0] not in ("c", "m") or cur[1][1]:
            return None
        d = _single_def(view, cur[1][0])
        if d is None:
            return None
        kind, x = d
        if kind == "stmt":
            if x[0] == "use":
                cur = x[1]
            elif x[0] == "un" and x[1] == "Not":
                neg = not neg
                cur = x[2]
            else:
                return None
        else:
            seg = mir.last_seg(mir.callee_decl(x)) or ""
            if seg in LT and len(x["args"]) >= 2:
                return x, neg, LT[seg]
            if seg == "not" and x["args"]:
                neg = not neg
                cur = x["args"][0]
            elif seg in PASS_SEGS and x["args"]:
                cur = x["args"][0]
            else:
                return None
    return None


def _ok_blocks(view):
    out = []
    so = view.b.get("sig_out") or ""
    for bi, bb in enumerate(view.blocks):
        if bb["cleanup"]:
            continue
        if so.startswith("core::result::Result<"):
            for s in bb["stmts"]:
                if s[0] == "a" and s[2][0] == "agg" and s[2][1] == "adt" and s[2][2] == "core::result::Result" and s[2][3] == 0:
                    out.append(bi)
        elif bb["term"]["k"] == "ret":
            out.append(bi)
    return out


def own_guard(view, pmod):
    """the rejection guard owned by this body, or a reason why there is none"""
    prov = RProv(view)
    oks = _ok_blocks(view)
    if not oks:
        return None, "no successful return found"
    best = "no branch on a `candidate < modulus` comparison"
    for bi, bb in enumerate(view.blocks):
        t = bb["term"]
        if bb["cleanup"] or t["k"] != "switch" or t.get("ty") != "bool":
            continue
        c = _comparison_of(view, t["op"])
        if c is None:
            continue
        call, neg, swapped = c
        a0, a1 = call["args"][0], call["args"][1]
        if swapped:
            a0, a1 = a1, a0
        r0 = {r.what for r in prov.roots_of_operand(a0) if r.kind == "param"}
        r1 = {r.what for r in prov.roots_of_operand(a1) if r.kind == "param"}
        if pmod not in r1 or pmod in r0:
            best = "the comparison at %s does not compare a candidate with the modulus in the order candidate < modulus" % call["s"]
            continue
        false_t, true_t = t["t"][0], t["t"][-1]
        if neg:
            false_t, true_t = true_t, false_t
        bad = None
        for ok in oks:
            if ok in view._reach_avoiding(0, bi) or bi == ok:
                bad = "a successful return at block %d is reachable without passing the comparison at %s" % (ok, call["s"])
            elif ok in view._reach_avoiding(false_t, bi):
                bad = "the successful return is reachable from the *failing* outcome of the comparison at %s (polarity)" % call["s"]
            elif ok not in view._reach_avoiding(true_t, bi):
                bad = "the successful return is not reachable from the passing outcome of the comparison at %s" % call["s"]
        if bad is None:
            return call["s"], None
        best = bad
    return None, best


def _some_dominating_modulus_branch(eng, bid, pm):
    view = eng.view(bid)
    oks = _ok_blocks(view)
    summ, evs = eng.analyze(bid, collect=True)
    for e in evs:
        if e.kind != "branch" or e.via:
            continue
        if not any(l == "@%d" % pm or l.startswith("@%d." % pm) for l in e.labels):
            continue
        bi = e.bb[0]
        if oks and all(ok not in view._reach_avoiding(0, bi) and ok != bi for ok in oks):
            return True
    return False


def run_a(facts, eng, report, config):
    samplers = {}
    for b in facts.fn_bodies():
        if b["kind"] == "Closure":
            continue
        pm, pr = _param_named(b, "modulus"), _param_named(b, "rng")
        if pm and pr:
            samplers[b["id"]] = (b, pm)
    guarded = {}
    for bid, (b, pm) in samplers.items():
        site, why = own_guard(eng.view(bid), pm)
        guarded[bid] = (site, why)
    for bid, (b, pm) in sorted(samplers.items()):
        report.count("modular_samplers")
        key = "c19.reject|%s" % norm_id(bid)
        site, why = guarded[bid]
        if site:
            report.add(Instance(key, "c19.reject", "ok", "auto: every successful return is reached only through the passing "
                                "edge of the `candidate < modulus` comparison at %s" % site, b["span"], {"body": bid}), config)
            continue
        # forwarding
        view = eng.view(bid)
        prov = RProv(view)
        fwd = None
        for bi, t in view.calls():
            if view.blocks[bi]["cleanup"]:
                continue
            passes = any(pm in {r.what for r in prov.roots_of_operand(a) if r.kind == "param"} for a in t["args"])
            if not passes:
                continue
            cids = eng.callee_ids(t)
            seg = mir.last_seg(mir.callee_decl(t)) or ""
            if cids and all(c in guarded for c in cids):
                # the callee is itself a modular sampler and gets its own verdict (no cascade of reports)
                fwd = mir.callee_name(t) or mir.callee_decl(t)
            elif seg in ("try_random_mod", "random_mod") and t["f"].get("trait") == "traits::RandomMod":
                fwd = mir.callee_decl(t) + " (trait dispatch; every impl is an instance of this rule)"
        if fwd:
            report.add(Instance(key, "c19.reject", "ok", "auto: forwards its modulus to the sampler %s, which is judged on its own" % fwd,
                                b["span"], {"body": bid}), config)
        elif why.startswith("no branch on") and _some_dominating_modulus_branch(eng, bid, pm):
            # a guard in an idiom the comparison chase does not know (e.g. through Ordering or CtOption): do not guess
            report.add(Instance(key, "c19.reject", "info", "a branch depending on the modulus dominates every successful "
                                "return, but it is not a recognised `candidate < modulus` comparison: not judged",
                                b["span"], {"body": bid}), config)
        else:
            report.add(Instance(key, "c19.reject", "violation",
                                "modular sampler `%s` can return a value that was never compared with the modulus: %s" % (
                                    b.get("name"), why), b["span"], {"body": bid}), config)


def run_b(facts, eng, report, config):
    targets = {}
    for b in facts.fn_bodies():
        if b["kind"] != "Closure" and b.get("name") == "try_random_bits_with_precision":
            targets[b["id"]] = b
    decided = {}
    rounded = {}

    def own(b, param):
        view = eng.view(b["id"])
        summ, evs = eng.analyze(b["id"], collect=True)
        for e in evs:
            if e.kind != "branch" or e.via:
                continue
            if not any(l == "@%d" % param for l in e.labels):
                continue
            if any(l.startswith("rounded:") for l in e.labels):
                # compares with a size read back from the allocated value (limb-rounded), not the requested precision
                rounded[b["id"]] = e.info.get("span")
                continue
            t = view.blocks[e.bb[0]]["term"]
            succs = list(dict.fromkeys(t["t"]))
            if len(succs) == 2 and (_error_region(view, succs[0], succs[1]) or _error_region(view, succs[1], succs[0])):
                return e.info.get("span")
        return None

    for bid, b in targets.items():
        decided[bid] = {}
        for nm in ("bit_length", "bits_precision"):
            p = _param_named(b, nm)
            if p:
                decided[bid][nm] = own(b, p)
    for bid, b in sorted(targets.items()):
        report.count("bit_bounded_samplers")
        key = "c19.bitguard|%s" % norm_id(bid)
        view = eng.view(bid)
        prov = RProv(view)
        missing = []
        notes = []
        fixed_width = "BoxedUint" not in (b.get("impl_self") or "")
        for nm, site in decided[bid].items():
            if nm == "bits_precision" and not fixed_width:
                # a boxed value takes the requested precision; only bit_length <= precision is checked
                continue
            if site:
                notes.append("%s at %s" % (nm, site))
                continue
            # forwarded to another instance that checks it?
            p = _param_named(b, nm)
            ok = False
            for bi, t in view.calls():
                if view.blocks[bi]["cleanup"]:
                    continue
                for c in eng.callee_ids(t):
                    if c in decided and c != bid and decided[c].get(nm):
                        cp = _param_named(targets[c], nm)
                        if cp and cp - 1 < len(t["args"]) and \
                                p in {r.what for r in prov.roots_of_operand(t["args"][cp - 1]) if r.kind == "param"}:
                            ok = True
                            notes.append("%s forwarded to %s" % (nm, mir.last_seg(c)))
            if not ok:
                missing.append(nm)
        if missing:
            report.add(Instance(key, "c19.bitguard", "violation",
                                "`%s` has no rejecting branch that depends on %s: a request the target cannot hold is not "
                                "refused%s" % (b.get("name"), " / ".join(missing),
                                               " (the comparison at %s uses a size read back from the allocated BoxedUint, "
                                               "which is rounded up to whole limbs)" % rounded[bid] if bid in rounded else ""),
                                b["span"], {"body": bid}), config)
        else:
            report.add(Instance(key, "c19.bitguard", "ok", "auto: rejecting branch on " + "; ".join(notes), b["span"],
                                {"body": bid}), config)


RNG_TRAITS = ("rand_core::TryRngCore", "rand_core::RngCore", "rand_core::TryCryptoRng", "rand_core::CryptoRng")


def _rng_cores(eng, bid, prng, depth=0, seen=None):
    """in-crate functions (normalised ids) that read the RNG directly, reachable from `bid` by passing its RNG on"""
    seen = seen if seen is not None else set()
    if (bid, prng) in seen or depth > 4:
        return set()
    seen.add((bid, prng))
    view = eng.view(bid)
    prov = RProv(view)
    out = set()
    for bi, t in view.calls():
        if view.blocks[bi]["cleanup"]:
            continue
        pos = [i for i, a in enumerate(t["args"])
               if prng in {r.what for r in prov.roots_of_operand(a) if r.kind == "param"}]
        if not pos:
            continue
        cids = [c for c in eng.callee_ids(t) if eng.by_id[c]["kind"] != "Closure"]
        if not cids:
            if (t["f"].get("trait") or "") in RNG_TRAITS or (mir.callee_name(t) or "").startswith("rand_core::"):
                out.add(norm_id(bid))
            continue
        for c in cids:
            out |= _rng_cores(eng, c, pos[0] + 1, depth + 1, seen)
    # closures capturing the rng (e.g. `|| rng.try_next_u64()`) read it on behalf of the enclosing function
    for cb in eng.facts.fn_bodies():
        if cb["kind"] == "Closure" and cb["id"].startswith(bid + "::{closure"):
            for bi, t in mir.BodyView(cb).calls():
                if (t["f"].get("trait") or "") in RNG_TRAITS:
                    out.add(norm_id(bid))
    return out


def run_c(facts, eng, report, config):
    per = {}
    for b in facts.fn_bodies():
        if b["kind"] == "Closure" or b.get("impl_trait") not in ("traits::RandomMod", "traits::RandomBits"):
            continue
        st = mir.adt_of_ty(b.get("impl_self") or "")
        if st not in ("uint::Uint", "uint::boxed::BoxedUint"):
            continue
        pr = _param_named(b, "rng")
        if not pr:
            continue
        per.setdefault(b["name"], {})[st] = (b, _rng_cores(eng, b["id"], pr))
    for name, d in sorted(per.items()):
        if len(d) < 2:
            continue
        report.count("fixed_boxed_sampler_pairs")
        key = "c19.stream|%s" % name
        (bu, cu), (bb_, cb) = d["uint::Uint"], d["uint::boxed::BoxedUint"]
        # wrappers of the same trait (try_random_bits -> try_random_bits_with_precision) resolve to the type's own impl
        cu2 = {c.replace("uint::Uint<_>", "T") for c in cu}
        cb2 = {c.replace("uint::boxed::BoxedUint", "T").replace("uint::boxed::rand", "uint::rand") for c in cb}
        if cu and cu2 == cb2:
            report.add(Instance(key, "c19.stream", "ok", "auto: `%s` of Uint and of BoxedUint hand the RNG to the same "
                                "routine(s): %s" % (name, sorted(cu)), bu["span"], {"uint": sorted(cu), "boxed": sorted(cb)}), config)
        else:
            report.add(Instance(key, "c19.stream", "violation",
                                "`%s`: the fixed-width implementation reads the RNG in %s, the boxed one in %s — they need not "
                                "consume the stream identically" % (name, sorted(cu), sorted(cb)), bb_["span"],
                                {"uint": sorted(cu), "boxed": sorted(cb)}), config)


def run(facts, report, config):
    eng = flow.Engine(facts, RoundPolicy())
    eng.run_all(collect=False)
    run_a(facts, eng, report, config)
    run_b(facts, eng, report, config)
