"""The decoded-length witness of the external byte decoder must be looked at (`c16.declen`).

`serdect::array::deserialize_hex_or_bin(buffer, deserializer)` fills a caller-supplied buffer and returns the slice it
actually wrote.  The callers pre-zero a buffer of the type's full size; if the returned slice is dropped, nothing in this
crate relates the number of decoded bytes to the size the type requires — acceptance of a shorter input then rests
entirely on the dependency's length check (serdect 0.3.0 skips it on the human-readable string path: `"ff"` decodes to
`U128(0xff)`).  Rule: the `Ok` payload of every such call (extracted from the `?` desugaring's `Continue` variant, or
from a `match` on `Ok`) is consumed by something other than a chain of dead copies (C04's reaching-definition walk)."""
from .. import mir
from ..common import Instance, norm_id
from .carry import value_consumed

DECODERS = ("deserialize_hex_or_bin",)


def run(facts, report, config, prefix="c16.declen", counter="external_decode_calls"):
    for b in facts.fn_bodies():
        view = mir.BodyView(b)
        n = 0
        for bi, t in view.calls():
            if view.blocks[bi]["cleanup"] or (mir.last_seg(mir.callee_decl(t)) or "") not in DECODERS:
                continue
            if not (mir.callee_decl(t) or "").startswith("serdect::") or t["t"] is None or t["dst"][1]:
                continue
            report.count(counter)
            key = "%s|%s|%d" % (prefix, norm_id(b["id"]), n)
            n += 1
            holders = {t["dst"][0]}
            # the result moves through Try::branch (the `?` desugaring) and plain copies
            changed = True
            while changed:
                changed = False
                for bj, tt in view.calls():
                    if (mir.last_seg(mir.callee_decl(tt)) or "") == "branch" and tt["args"] and tt["args"][0][0] in ("c", "m") \
                            and tt["args"][0][1][0] in holders and not tt["dst"][1] and tt["dst"][0] not in holders:
                        holders.add(tt["dst"][0])
                        changed = True
                for bb in view.blocks:
                    for s in bb["stmts"]:
                        if s[0] == "a" and not s[1][1] and s[2][0] == "use" and s[2][1][0] in ("c", "m") and \
                                not s[2][1][1][1] and s[2][1][1][0] in holders and s[1][0] not in holders:
                            holders.add(s[1][0])
                            changed = True
            used = False
            extracted = 0
            for bj, bb in enumerate(view.blocks):
                if bb["cleanup"]:
                    continue
                for sj, s in enumerate(bb["stmts"]):
                    if s[0] != "a" or s[2][0] != "use" or s[2][1][0] not in ("c", "m"):
                        continue
                    l, proj = s[2][1][1]
                    if l not in holders or len(proj) < 2:
                        continue
                    if isinstance(proj[0], list) and proj[0][0] == "dc" and proj[0][1] == 0 and not s[1][1]:
                        extracted += 1
                        if value_consumed(view, (bj, sj + 1), s[1][0], ()):
                            used = True
            if used:
                report.add(Instance(key, prefix, "ok", "auto: the slice returned by the decoder is read (%d extraction(s))" % extracted,
                                    t["s"], {"body": b["id"]}), config)
            else:
                report.add(Instance(key, prefix, "violation",
                                    "`%s` drops the slice returned by `%s`: the number of bytes actually decoded into the pre-zeroed "
                                    "buffer is never compared with the size the type requires, so a shorter encoding is accepted "
                                    "whenever the dependency does not reject it (serdect 0.3.0 does not on the string path)" % (
                                        b["id"], mir.callee_decl(t)), t["s"], {"body": b["id"]}), config)
