"""Random residues come from the modular sampler (`c19.route`).

A uniformly random element of Z/mZ cannot be obtained by reducing a uniformly random full-width integer: unless m divides
2^BITS the residues below 2^BITS mod m are hit once more often.  The crate's `Random` impl for a Montgomery form therefore
draws from `random_mod` (rejection sampling) and converts.  Rule (who-must-call): every `Random::try_random` / `random`
implementation whose `Self` is one of the Montgomery form types contains a call of the `random_mod` family; one that
instead calls the full-width `random` / `try_random` of the integer type is reported."""
import re

from .. import mir
from ..common import Instance, norm_id

FORMS = re.compile(r"modular::(const_monty_form::ConstMontyForm|monty_form::MontyForm|boxed_monty_form::BoxedMontyForm)<")
MOD_SAMPLERS = {"random_mod", "try_random_mod"}
NAMES = {"random", "try_random"}


def run(facts, report, config, prefix="c19.route"):
    for b in facts.fn_bodies():
        if b["kind"] == "Closure" or (b.get("name") or "") not in NAMES:
            continue
        st = b.get("impl_self") or ""
        if not FORMS.search(st) and not FORMS.search(b["id"]):
            continue
        view = mir.BodyView(b)
        segs = {mir.last_seg(mir.callee_decl(t)) or "" for bi, t in view.calls() if not view.blocks[bi]["cleanup"]}
        report.count("random_residue_constructors")
        key = "%s|%s" % (prefix, norm_id(b["id"]))
        forwards = False
        for bi, t in view.calls():
            if view.blocks[bi]["cleanup"] or (mir.last_seg(mir.callee_decl(t)) or "") not in NAMES:
                continue
            target = (t["f"].get("self") or "") + " " + (t["f"].get("res") or "") + " " + (mir.callee_name(t) or "")
            if FORMS.search(target) or "MontyForm" in target:
                forwards = True
        if segs & MOD_SAMPLERS:
            report.add(Instance(key, prefix, "ok", "auto: the residue is drawn by the modular (rejection) sampler", b["span"],
                                {"body": b["id"]}), config)
        elif forwards:
            report.add(Instance(key, prefix, "ok", "auto: forwards to another random constructor of a form (judged there)",
                                b["span"], {"body": b["id"]}), config)
        else:
            report.add(Instance(key, prefix, "violation",
                                "`%s` builds a random residue without calling the modular sampler (`random_mod` family): reducing a "
                                "full-width random integer is biased unless the modulus divides 2^BITS" % b["id"], b["span"],
                                {"body": b["id"]}), config)
