"""C16 clauses (b) and (c) (DESIGN.md §3 C16).

(b) error-word discipline: the error component returned by `decode_hex_byte` (tuple field 1) and the
    overflow flag returned by `DecodeByLimb::push_limb` must flow into a decision at every call site:
    the operand of a SwitchInt, or the choice argument of CtOption::new / ConstCtOption::new.
(c) fallible slice decoders with a precision parameter have an error-exit branch that depends on both
    the input length and the precision.
"""
from .. import mir, flow
from ..common import Instance, norm_id

SOURCES = {
    "decode_hex_byte": ("1",),     # (byte, err)
    "push_limb": (),               # bool
}
INT_TYS = ("u32", "usize", "u64")
GATE_SEGS = {"new"}
GATE_OWNERS = ("subtle::CtOption", "const_choice::ConstCtOption")


def mark_rounded(view, term, ret):
    """a size read back from an allocated BoxedUint (bits_precision(), nlimbs(), ...) is rounded up to whole limbs:
    label it, so that a guard using it is not mistaken for a guard on the *requested* precision"""
    if term["args"] and not term["dst"][1] and view.locals[term["dst"][0]] in INT_TYS:
        a0 = term["args"][0]
        if a0[0] in ("c", "m") and not a0[1][1] and \
                mir.peel_refs(view.locals[a0[1][0]]) == "uint::boxed::BoxedUint":
            return flow.v_join(ret, flow.scalar({"rounded:%s" % (mir.last_seg(mir.callee_decl(term)) or "?")}))
    return ret


class RoundPolicy(flow.Policy):
    def post_call(self, engine, view, bb, term, ret, argvals):
        return mark_rounded(view, term, ret)


class ErrPolicy(flow.Policy):
    propagate_kinds = ()

    def __init__(self):
        self.sources = {}

    def post_call(self, engine, view, bb, term, ret, argvals):
        seg = mir.last_seg(mir.callee_decl(term))
        if seg in SOURCES and not view.blocks[bb]["cleanup"]:
            lab = "err:%s@%s#%d" % (seg, view.id, bb)
            self.sources[lab] = (view.id, bb, term["s"], seg)
            return flow.v_write(ret, SOURCES[seg], flow.scalar({lab}), strong=False)
        return mark_rounded(view, term, ret)

    def call_hook(self, engine, view, bb, term, argvals, callee_ids):
        name = mir.callee_name(term) or ""
        seg = mir.last_seg(name)
        if seg in GATE_SEGS and any(name.startswith(o) for o in GATE_OWNERS) and len(argvals) >= 2:
            ls = flow.v_flat(argvals[1])
            if ls:
                return (("gate", ls, {"what": "choice of " + name}),)
        return ()


def run_b(facts, report, config):
    pol = ErrPolicy()
    eng = flow.Engine(facts, pol)
    events = eng.run_all(collect=True)
    consumed = {}
    for bid, evs in events.items():
        for e in evs:
            if e.kind in ("branch", "gate", "assert"):
                for l in e.labels:
                    if l.startswith("err:"):
                        consumed.setdefault(l, []).append((e.kind, bid, e.info.get("span")))
    # summaries may carry an err label out of the function (returned to the caller): follow it
    for lab, (bid, bb, span, seg) in sorted(pol.sources.items()):
        report.count("error_word_sources")
        key = "c16.errword|%s|%s|%d" % (norm_id(bid), seg, _ordinal(eng, bid, bb, seg))
        uses = consumed.get(lab, [])
        if uses:
            report.add(Instance(key, "c16.errword", "ok",
                                "auto: error word of %s reaches %d decision(s), e.g. %s at %s" % (
                                    seg, len(uses), uses[0][0], uses[0][2]), span,
                                {"body": bid, "decisions": [list(u) for u in uses[:4]]}), config)
        else:
            report.add(Instance(key, "c16.errword", "violation",
                                "the error/overflow word returned by `%s` is computed and dropped: it reaches no "
                                "branch and no CtOption choice, so malformed input is accepted" % seg, span,
                                {"body": bid}), config)
    return eng


def _ordinal(eng, bid, bb, seg):
    v = eng.view(bid)
    n = 0
    for bi, t in v.calls():
        if bi == bb:
            return n
        if mir.last_seg(mir.callee_decl(t)) == seg and not v.blocks[bi]["cleanup"]:
            n += 1
    return n


PRECISION_NAMES = {"bits_precision", "precision", "at_least_bits_precision"}
FALLIBLE = ("core::result::Result<", "core::option::Option<", "subtle::CtOption<", "const_choice::ConstCtOption<")


def run_c(facts, report, config, eng=None):
    """Fallible decoders taking (slice/str, precision): an error-exit branch depends on both."""
    if eng is None:
        eng = flow.Engine(facts, flow.Policy())
        eng.run_all(collect=False)
    inst = {}
    for b in facts.fn_bodies():
        if b["kind"] == "Closure" or not (b.get("sig_out") or "").startswith(FALLIBLE):
            continue
        view = eng.view(b["id"])
        names = b.get("names", {})
        slice_p = [i for i in range(1, view.argc + 1)
                   if view.locals[i] in ("&[u8]",)]
        prec_p = [i for i in range(1, view.argc + 1) if names.get(str(i)) in PRECISION_NAMES]
        if not slice_p or not prec_p:
            continue
        summ, evs = eng.analyze(b["id"], collect=True)
        want_len = {"@%d#len" % slice_p[0]}
        found = None
        rounded = None
        for e in evs:
            if e.kind != "branch" or e.via:
                continue
            ls = e.labels
            has_len = bool(want_len & ls)
            has_prec = any(l == "@%d" % prec_p[0] or l.startswith("@%d." % prec_p[0]) for l in ls)
            if has_len and has_prec and any(l.startswith("rounded:") for l in ls):
                rounded = e.info.get("span")
                continue
            if has_len and has_prec:
                bi = e.bb[0]
                t = view.blocks[bi]["term"]
                succs = list(dict.fromkeys(t["t"]))
                if len(succs) == 2 and (_error_region(view, succs[0], succs[1]) or
                                        _error_region(view, succs[1], succs[0])):
                    found = e.info.get("span")
                    break
        inst[b["id"]] = {"b": b, "slice": slice_p[0], "prec": prec_p[0], "found": found, "rounded": rounded}
    for bid, d in sorted(inst.items()):
        b = d["b"]
        names = b.get("names", {})
        report.count("precision_decoders")
        key = "c16.precguard|%s" % norm_id(bid)
        if d["found"]:
            report.add(Instance(key, "c16.precguard", "ok",
                                "auto: a branch at %s depends on both the input and the precision and has two "
                                "distinct outcomes" % d["found"], b["span"], {"body": bid}), config)
            continue
        # the check may live in a helper that receives both the input and the precision and whose failure is
        # propagated (`helper(bytes, bits_precision)?`)
        view = eng.view(bid)
        prov = mir.Provenance(view)
        fwd = None
        for bi, t in view.calls():
            if view.blocks[bi]["cleanup"] or t["t"] is None:
                continue
            for c in eng.callee_ids(t):
                dc = inst.get(c)
                if not dc or not dc["found"] or c == bid:
                    continue
                if dc["slice"] - 1 >= len(t["args"]) or dc["prec"] - 1 >= len(t["args"]):
                    continue
                rs = {r.what for r in prov.roots_of_operand(t["args"][dc["slice"] - 1]) if r.kind == "param" and not r.path}
                rp = {r.what for r in prov.roots_of_operand(t["args"][dc["prec"] - 1]) if r.kind == "param" and not r.path}
                if rs != {d["slice"]} or rp != {d["prec"]}:
                    continue
                # is the helper's failure propagated? a switch in the blocks after the call with a rejecting outcome
                for x in view.reach_set(t["t"]):
                    tx = view.blocks[x]["term"]
                    if tx["k"] == "switch":
                        succs = list(dict.fromkeys(tx["t"]))
                        if len(succs) >= 2 and any(_error_region(view, a, o) for a in succs for o in succs if a != o) \
                                and _switch_on_result_of(view, x, t["dst"][0]):
                            fwd = (mir.callee_name(t), t["s"])
        if fwd:
            report.add(Instance(key, "c16.precguard", "ok",
                                "auto: the whole input slice and the requested precision are handed to `%s` (which owns the "
                                "rejecting comparison) at %s and its failure is propagated" % fwd, b["span"],
                                {"body": bid}), config)
        else:
            report.add(Instance(key, "c16.precguard", "violation",
                                "no returning branch depends on both the length of `%s` and `%s`: input longer "
                                "than the requested precision is not rejected%s" % (
                                    names.get(str(d["slice"])), names.get(str(d["prec"])),
                                    " (the comparison at %s uses a size read back from the allocated BoxedUint, which "
                                    "is rounded up to whole limbs, instead of the requested precision)" % d["rounded"]
                                    if d["rounded"] else ""), b["span"],
                                {"body": bid}), config)


def _switch_on_result_of(view, sw_bb, local, depth=0):
    """does the SwitchInt ending block sw_bb test (the discriminant of) a value derived from `local` by moves,
    `Try::branch` and discriminant reads?"""
    t = view.blocks[sw_bb]["term"]
    if t["op"][0] not in ("c", "m"):
        return False
    want = {local}
    changed = True
    while changed:
        changed = False
        for bb in view.blocks:
            if bb["cleanup"]:
                continue
            for s in bb["stmts"]:
                if s[0] != "a" or s[1][0] in want:
                    continue
                rv = s[2]
                src = None
                if rv[0] == "use" and rv[1][0] in ("c", "m"):
                    src = rv[1][1][0]
                elif rv[0] in ("discr", "cfd"):
                    src = rv[1][0]
                if src in want:
                    want.add(s[1][0])
                    changed = True
            tt = bb["term"]
            if tt["k"] == "call" and tt["dst"][0] not in want and mir.last_seg(mir.callee_decl(tt)) in ("branch", "into", "from") \
                    and any(a[0] in ("c", "m") and a[1][0] in want for a in tt["args"]):
                want.add(tt["dst"][0])
                changed = True
    return t["op"][1][0] in want


def _error_region(view, s, other):
    """Does successor `s` own an exclusive region (not reachable from `other`) that rejects: builds
    Err / None, propagates a residual, or diverges?"""
    excl = view.reach_set(s) - view.reach_set(other)
    for x in excl:
        bb = view.blocks[x]
        for st in bb["stmts"]:
            if st[0] == "a" and st[2][0] == "agg" and st[2][1] == "adt":
                if (st[2][2] == "core::result::Result" and st[2][3] == 1) or \
                        (st[2][2] == "core::option::Option" and st[2][3] == 0):
                    return True
        t = bb["term"]
        if t["k"] == "call":
            n = mir.callee_name(t) or ""
            if mir.last_seg(n) == "from_residual" or n.startswith("core::panicking::"):
                return True
    return False


# ---------------------------------------------------------------------------------------------
# (d) big-endian / little-endian twins guard their input alike.

def _twin_name(name):
    for a, b in (("_be_", "_le_"), ("_be", "_le"), ("be_", "le_")):
        if a in name:
            return name.replace(a, b, 1)
    return None


def run_d(facts, report, config, eng):
    """For every decoder `X_be..` with a twin `X_le..` in the same impl block that takes a byte / str input: if one of the
    two owns a guard (abort guard or rejecting branch) that depends on the input's length and the other owns none, the
    unguarded twin accepts input the guarded one refuses."""
    groups = {}
    for b in facts.fn_bodies():
        if b["kind"] == "Closure" or not b.get("name"):
            continue
        groups.setdefault(b["id"].rsplit("::", 1)[0], {})[b["name"]] = b
    for parent, members in sorted(groups.items()):
        for name, bb in sorted(members.items()):
            tw = _twin_name(name)
            if not tw or tw not in members or "_be" not in name and "be_" not in name:
                continue
            bl = members[tw]
            vb, vl = eng.view(bb["id"]), eng.view(bl["id"])
            if vb.argc != vl.argc:
                continue
            inp = [i for i in range(1, vb.argc + 1) if mir.peel_refs(vb.locals[i]) in ("[u8]", "str")
                   and vb.locals[i] == vl.locals[i]]
            if not inp:
                continue
            report.count("endianness_twin_decoders")
            key = "c16.twins|%s" % norm_id(bb["id"])

            def guards(b, view):
                n = 0
                summ, evs = eng.analyze(b["id"], collect=True)
                for e in evs:
                    if e.kind not in ("branch", "assert"):
                        continue
                    if not any(l == "@%d#len" % inp[0] for l in e.labels):
                        continue
                    if e.kind == "assert":
                        continue        # compiler-inserted bounds / overflow checks are not input validation
                    bi = e.bb[0] if not e.via else None
                    if e.via:
                        n += 1          # a guard inside a callee that receives the input
                        continue
                    t = view.blocks[bi]["term"]
                    succs = list(dict.fromkeys(t["t"]))
                    if view.abort_guard(bi) or (len(succs) == 2 and (_error_region(view, succs[0], succs[1]) or
                                                                     _error_region(view, succs[1], succs[0]))):
                        n += 1
                return n

            gb, gl = guards(bb, vb), guards(bl, vl)
            if (gb == 0) != (gl == 0):
                lacking, having = (bl, bb) if gl == 0 else (bb, bl)
                report.add(Instance(key, "c16.twins", "violation",
                                    "`%s` validates the length of its input (a rejecting branch / assertion depends on it) but "
                                    "its byte-order twin `%s` does not: the two decoders accept different sets of inputs" % (
                                        having["name"], lacking["name"]), lacking["span"],
                                    {"be": bb["id"], "le": bl["id"], "guards_be": gb, "guards_le": gl}), config)
            else:
                report.add(Instance(key, "c16.twins", "ok", "auto: both twins %s" % (
                    "own a length-dependent guard" if gb else "take any length (no length-dependent guard in either)"),
                    bb["span"], {"guards_be": gb, "guards_le": gl}), config)
