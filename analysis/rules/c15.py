"""C15 — forwarding routes call the same operation family with operands in the same order
(DESIGN.md §3 C15).

A *forwarder* is a branch- and loop-free body with 1..4 calls, exactly one of which resolves to a
callee in an operation family. For every forwarder whose own name is in family F:
  R1 the family callee is in F or in a family compatible with F (table below / c15.toml);
  R2 operands keep their order: the callee's receiver comes from the forwarder's first operand and
     its next operand from the second (non-commutative families), and never both from the same
     operand unless the relation says so (square = mul(x, x));
  R3 projection forwarders take the right tuple component: div <- div_rem(..).0, rem <- div_rem(..).1.
Only resolved callee identity and operand provenance are inspected.
"""
from .. import mir, flow
from ..common import Instance, norm_id, load_table

PRE = ("checked_", "wrapping_", "saturating_", "overflowing_", "widening_", "carrying_", "borrowing_",
       "concatenating_", "split_", "conditional_", "ct_", "const_")
SUF = ("_assign", "_vartime", "_limb", "_with_reciprocal", "_wide", "_special", "_mixed", "_unchecked",
       "_ref", "_uint", "_int", "_like", "_full", "_with_carry", "_bounded_exp", "_floor", "_base")
ALIAS = {"adc": "add", "sbb": "sub", "and": "bitand", "or": "bitor", "xor": "bitxor", "invert": "inv",
         "lt": "cmp_lt", "gt": "cmp_gt"}
FAMILIES = {"add", "sub", "mul", "square", "div", "rem", "div_rem", "neg", "shl", "shr", "bitand", "bitor",
            "bitxor", "not", "add_mod", "sub_mod", "neg_mod", "mul_mod", "double_mod", "double", "inv",
            "inv_mod", "inv_odd_mod", "inv_mod2k", "gcd", "sqrt", "pow", "cmp", "partial_cmp", "eq", "bits",
            "leading_zeros", "trailing_zeros", "trailing_ones", "leading_ones", "div_by_2", "abs",
            "retrieve", "lincomb", "cmp_lt", "cmp_gt", "rem2k"}
NONCOMMUTATIVE = {"sub", "div", "rem", "div_rem", "shl", "shr", "cmp", "partial_cmp", "pow", "add_mod",
                  "sub_mod", "mul_mod", "inv_mod", "inv_odd_mod", "cmp_lt", "cmp_gt", "rem2k", "inv_mod2k"}
# own family -> acceptable callee families (besides itself)
COMPAT = {
    "div": {"div_rem"},
    "rem": {"div_rem"},
    "partial_cmp": {"cmp"},
    "cmp": {"partial_cmp"},
    "inv_odd_mod": {"inv"},
    "inv_mod": {"inv"},
    "bits": {"leading_zeros"},          # bits = BITS - leading_zeros (and back), by definition
    "leading_zeros": {"bits"},
}
MIRROR = {"cmp_gt": "cmp_lt", "cmp_lt": "cmp_gt"}
# only for self types under modular:: (Montgomery-form operators are modular by definition)
COMPAT_MODULAR = {"add": {"add_mod"}, "sub": {"sub_mod"}, "neg": {"neg_mod"}, "mul": {"mul_mod"},
                  "double": {"double_mod"}}
PROJECTION = {"div": "0", "rem": "1"}

# callees that are never family members whatever their name: boolean algebra on choices, options
NEUTRAL_SELF = ("const_choice::ConstChoice", "subtle::Choice", "const_choice::ConstCtOption", "subtle::CtOption",
                "core::option::Option", "core::result::Result", "bool")
# value-preserving helpers for the operand-order chase
ORDER_VP_SEG = {"expect", "unwrap", "unwrap_or", "into", "from", "clone", "to_nz", "to_odd", "as_ref", "deref", "map", "and_then",
                "is_some", "is_none", "components_ref", "as_mut", "deref_mut", "borrow_mut", "as_limbs_mut", "as_words", "params",
                "bits_precision", "nlimbs", "zero", "one", "zero_with_precision", "default", "try_into", "try_from",
                "borrow", "new", "get", "as_nz_ref", "as_uint", "as_int", "as_limbs", "to_limbs", "into_option",
                "new_unwrap", "as_montgomery", "resize", "widen", "to_uint"}


def family(seg):
    if not seg:
        return None
    s = seg
    ch = True
    while ch:
        ch = False
        for p in PRE:
            if s.startswith(p) and len(s) > len(p):
                s = s[len(p):]
                ch = True
        for x in SUF:
            if s.endswith(x) and len(s) > len(x):
                s = s[:-len(x)]
                ch = True
    s = ALIAS.get(s, s)
    return s if s in FAMILIES else None


def _neutral_callee(t):
    f = t["f"]
    name = mir.callee_name(t) or ""
    st = f.get("self") or ""
    for n in NEUTRAL_SELF:
        if name.startswith(n + "::") or name.startswith("<" + n) or st.startswith(n):
            return True
    return False


class OrderProv(mir.Provenance):
    """Provenance that also walks through neutral helper calls (expect, into, NonZero::new, ...)."""

    def is_vp(self, term):
        if super().is_vp(term):
            return True
        seg = mir.last_seg(mir.callee_name(term))
        return seg in ORDER_VP_SEG and len(term["args"]) >= 1


def run(facts, report, config):
    tab = load_table("c15.toml")
    reviewed = {e["key"]: e for e in tab.get("reviewed", [])}
    used = set()
    inherent = {}
    for b in facts.fn_bodies():
        if b["kind"] == "AssocFn" and b.get("impl_self") and not b.get("impl_trait"):
            inherent.setdefault(norm_id(mir.peel_refs(b["impl_self"])), {})[b["name"]] = b["id"]
    for b in facts.fn_bodies():
        if b["kind"] == "Closure":
            continue
        own = family(b.get("name"))
        if own is None:
            continue
        view = mir.BodyView(b)
        live = view.live_blocks()
        if any(view.blocks[i]["term"]["k"] == "switch" for i in live):
            continue
        calls = [(i, view.blocks[i]["term"]) for i in live if view.blocks[i]["term"]["k"] == "call"]
        if not (1 <= len(calls) <= 4):
            continue
        fam_calls = []
        for i, t in calls:
            if _neutral_callee(t):
                continue
            name = mir.callee_name(t)
            fam = family(mir.last_seg(name)) or family(mir.last_seg(mir.callee_decl(t)))
            if fam:
                fam_calls.append((i, t, fam, name))
        report.count("family_named_branch_free_bodies")
        if len(fam_calls) != 1:
            continue
        # a body that combines its one family callee with other computing calls (a helper, a select, a mask
        # operation) is an implementation, not a forwarder: only neutral helpers may accompany the family callee
        others = [t2 for (i2, t2) in calls if t2 is not fam_calls[0][1] and not _neutral_callee(t2)
                  and (mir.last_seg(mir.callee_name(t2)) or "") not in ORDER_VP_SEG
                  and (mir.last_seg(mir.callee_decl(t2)) or "") not in ORDER_VP_SEG]
        if others:
            report.count("implementations_with_one_family_callee_not_judged")
            continue
        bi, t, cfam, cname = fam_calls[0]
        report.count("forwarders")
        key = "c15.forward|%s" % norm_id(b["id"])
        site = t["s"]
        detail = {"forwarder": b["id"], "own_family": own, "callee": cname, "callee_family": cfam}
        problems = []
        # R1 family
        ok_fams = {own} | COMPAT.get(own, set())
        st = (b.get("impl_self") or "") + " " + b["id"]
        if "modular::" in st:
            ok_fams |= COMPAT_MODULAR.get(own, set())
        mirrored = MIRROR.get(own) == cfam
        if cfam not in ok_fams and not mirrored:
            problems.append("family: `%s` (family %s) forwards to `%s` (family %s)" % (b.get("name"), own, cname, cfam))
        # R2 operand order
        prov = OrderProv(view)
        nparams = view.argc
        args = t["args"]

        def param_set(op):
            rs = mir.uniq_roots(prov.roots_of_operand(op))
            ps = set()
            pure = True
            for r in rs:
                if r.kind == "param":
                    ps.add(r.what)
                elif r.kind == "multi":
                    continue
                else:
                    pure = False
            return ps, pure

        order = "n/a"
        if nparams >= 2 and len(args) >= 2:
            p0, pure0 = param_set(args[0])
            p1, pure1 = param_set(args[1])
            detail["arg_params"] = [sorted(p0), sorted(p1)]
            if pure0 and pure1 and p0 and p1 and mirrored:
                # `a > b` expressed as `b < a`: the operands must be swapped
                if p0 == {2} and p1 == {1}:
                    order = "swapped(mirrored comparison)"
                elif p0 == {1} and p1 == {2}:
                    problems.append("operand order: `%s` forwards to the mirrored comparison `%s` without swapping the "
                                    "operands" % (b.get("name"), mir.last_seg(cname)))
                else:
                    order = "mixed"
            elif pure0 and pure1 and p0 and p1:
                if p0 == {2} and p1 == {1}:
                    if own in NONCOMMUTATIVE or cfam in NONCOMMUTATIVE:
                        problems.append("operand order: callee receiver comes from the second operand and its "
                                        "argument from the first (swapped)")
                    order = "swapped(commutative)"
                elif p0 == p1 and len(p0) == 1:
                    problems.append("operand order: both callee operands come from parameter _%d" % list(p0)[0])
                elif p0 == {1} and p1 == {2}:
                    order = "preserved"
                else:
                    order = "mixed"
            else:
                order = "not-pure-params"
        detail["order"] = order
        # R3 projection
        want = PROJECTION.get(own)
        if want is not None and cfam == "div_rem" and not (b.get("sig_out") or "").startswith("("):
            dst = t["dst"]
            comp = _projected_component(view, dst[0], bi)
            detail["projected_component"] = comp
            if comp is not None and comp != want:
                problems.append("projection: `%s` returns component .%s of `%s` (quotient is .0, remainder .1)" % (
                    b.get("name"), comp, cname))
        # R4 same-name route: a trait method whose self type has an inherent method of the same name must reach
        # a method of that name (directly or through another forwarder), not a different member of the family
        if b.get("impl_trait"):
            st = norm_id(mir.peel_refs(b.get("impl_self") or ""))
            myname = b.get("name")
            if myname in inherent.get(st, {}):
                cseg = mir.last_seg(cname)
                twin_ok = (myname == cseg + "_vartime") or (myname == "eq" and cseg == "ct_eq") or \
                    (myname == "ne" and cseg == "ct_ne")
                if cseg != myname and not twin_ok:
                    problems.append("same-name route: `%s` has an inherent method `%s` but this trait method calls `%s` "
                                    "instead" % (st, myname, cname))
        if not problems:
            report.add(Instance(key, "c15.forward", "ok",
                                "auto: %s -> %s (family %s, order %s)" % (own, mir.last_seg(cname), cfam, order),
                                site, detail), config)
            continue
        why = "; ".join(problems)
        e = reviewed.get(key)
        if e is not None and norm_id(cname) == e.get("callee"):
            used.add(key)
            report.add(Instance(key, "c15.forward", "reviewed", "reviewed: " + e["reason"], site,
                                dict(detail, problems=problems)), config)
        else:
            report.add(Instance(key, "c15.forward", "violation", why, site, dict(detail, problems=problems)), config)
    for k in reviewed:
        if k not in used:
            report.stale.append({"table": "c15.toml", "key": k, "config": config})


def _projected_component(view, local, call_bb):
    """Which tuple component of call result `local` flows on (first field projection read)."""
    comps = set()
    for bb in view.blocks:
        if bb["cleanup"]:
            continue
        for s in bb["stmts"]:
            if s[0] != "a":
                continue
            for op in _ops(s[2]):
                if op[0] in ("c", "m") and op[1][0] == local:
                    fp = mir.field_path(op[1][1])
                    if fp:
                        comps.add(fp[0])
            rv = s[2]
            if rv[0] in ("ref", "rawptr") and rv[2][0] == local:
                fp = mir.field_path(rv[2][1])
                if fp:
                    comps.add(fp[0])
        t = bb["term"]
        if t["k"] == "call":
            for op in t["args"]:
                if op[0] in ("c", "m") and op[1][0] == local:
                    fp = mir.field_path(op[1][1])
                    if fp:
                        comps.add(fp[0])
    if len(comps) == 1:
        return list(comps)[0]
    return None


def _ops(rv):
    k = rv[0]
    if k in ("use", "repeat"):
        return [rv[1]]
    if k == "cast":
        return [rv[2]]
    if k == "bin":
        return [rv[2], rv[3]]
    if k == "un":
        return [rv[2]]
    if k == "agg":
        return list(rv[4])
    return []


# ---------------------------------------------------------------------------------------------
# Operand order through closures and helpers (Checked<T>, map/and_then chains)


class FamPolicy(flow.Policy):
    """Records, for every call of a non-commutative family member, which parameters of the enclosing
    function its receiver and its argument come from; propagated through closures and helpers."""
    propagate_kinds = ("fam0", "fam1")

    def filter_event(self, kind, labels, info):
        return frozenset(l for l in labels if l.startswith("@"))

    def call_hook(self, engine, view, bb, term, argvals, callee_ids):
        if _neutral_callee(term) or len(argvals) < 2:
            return ()
        name = mir.callee_name(term)
        fam = family(mir.last_seg(name)) or family(mir.last_seg(mir.callee_decl(term)))
        if fam not in NONCOMMUTATIVE:
            return ()
        info = {"what": "famcall:%s" % fam, "span": term["s"], "callee": name, "family": fam}
        return (("fam0", flow.v_flat(argvals[0]), dict(info)), ("fam1", flow.v_flat(argvals[1]), dict(info)))


def run_deep(facts, report, config):
    pol = FamPolicy()
    eng = flow.Engine(facts, pol)
    events = eng.run_all(collect=True)
    for b in facts.fn_bodies():
        if b["kind"] == "Closure":
            continue
        own = family(b.get("name"))
        if own not in NONCOMMUTATIVE:
            continue
        view = eng.view(b["id"])
        if view.argc < 2:
            continue
        # only bodies that reach the family call through closures / helpers (the direct ones are judged above)
        has_closure = any(s[0] == "a" and s[2][0] == "agg" and s[2][1] == "closure" for bb in b["blocks"] for s in bb["stmts"])
        if not has_closure:
            continue
        sinks = {}
        for e in events.get(b["id"], []):
            if e.kind in ("fam0", "fam1") and e.via:
                fam = e.info.get("family")
                ok = {own} | COMPAT.get(own, set())
                if fam not in ok:
                    continue
                if not (e.info.get("body") or "").startswith(b["id"] + "::{closure"):
                    continue      # only the family call made by this function's own closures
                sinks.setdefault(e.sink.replace("fam0", "fam").replace("fam1", "fam"), {})[e.kind] = (e.labels, e.info)
        for sink, d in sorted(sinks.items()):
            if "fam0" not in d or "fam1" not in d:
                continue
            p0 = {int(l[1:].split(".")[0].split("#")[0]) for l in d["fam0"][0]}
            p1 = {int(l[1:].split(".")[0].split("#")[0]) for l in d["fam1"][0]}
            report.count("deep_forwarders")
            key = "c15.deep|%s|%s" % (norm_id(b["id"]), norm_id(d["fam0"][1].get("callee") or ""))
            detail = {"forwarder": b["id"], "callee": d["fam0"][1].get("callee"), "receiver_params": sorted(p0),
                      "argument_params": sorted(p1)}
            if p0 == {2} and p1 == {1}:
                report.add(Instance(key, "c15.deep", "violation",
                                    "`%s` reaches `%s` (through closures) with its operands swapped: the callee's receiver comes "
                                    "from the second operand and its argument from the first" % (b.get("name"), d["fam0"][1].get("callee")),
                                    d["fam0"][1].get("span"), detail), config)
            elif p0 == p1 and len(p0) == 1:
                report.add(Instance(key, "c15.deep", "violation",
                                    "`%s` reaches `%s` (through closures) with both operands taken from parameter _%d" % (
                                        b.get("name"), d["fam0"][1].get("callee"), list(p0)[0]), d["fam0"][1].get("span"), detail), config)
            else:
                report.add(Instance(key, "c15.deep", "ok",
                                    "auto: operands reach the family callee in order (receiver from %s, argument from %s)" % (
                                        sorted(p0), sorted(p1)), d["fam0"][1].get("span"), detail), config)


# ---------------------------------------------------------------------------------------------
# R5 sibling agreement: `X` and `X_vartime` in the same impl block prepare their operands alike.

TIMING_ONLY_SUF = ("_vartime",)
SIB_IGNORE = {"clone", "into", "from", "as_ref", "deref", "borrow", "to_owned", "expect", "unwrap"}


def _strip_vt(seg):
    s = seg or ""
    for x in TIMING_ONLY_SUF:
        while s.endswith(x):
            s = s[:-len(x)]
    return s


def _prep_signature(view, prov, op, depth=0):
    """{(chain of preparing callees, param index)}: which helper calls a family-callee operand went through,
    from which parameter. Only calls whose result *is* the operand (value provenance) count."""
    out = set()
    for r in mir.uniq_roots(prov.roots_of_operand(op)):
        if r.kind == "param":
            out.add(((), r.what))
        elif r.kind == "call" and depth < 3 and r.site is not None:
            t = view.blocks[r.site[0]]["term"]
            seg = _strip_vt(mir.last_seg(mir.callee_name(t)) or mir.last_seg(mir.callee_decl(t)))
            inner = set()
            for a in t.get("args", []):
                inner |= _prep_signature(view, prov, a, depth + 1)
            if seg in SIB_IGNORE or seg in ORDER_VP_SEG:
                out |= inner        # value-preserving views / conversions are not preparation
                continue
            if not inner:
                out.add(((seg,), None))
            for ch, p in inner:
                out.add(((seg,) + ch, p))
        elif r.kind == "const":
            out.add((("const",), None))
        elif r.kind == "multi":
            continue
        else:
            out.add(((r.kind,), None))
    return out


def _one_family_call(view, own=None):
    live = view.live_blocks()
    if any(view.blocks[i]["term"]["k"] == "switch" for i in live):
        return None
    fam = []
    for i in live:
        t = view.blocks[i]["term"]
        if t["k"] != "call" or _neutral_callee(t):
            continue
        f = family(mir.last_seg(mir.callee_name(t))) or family(mir.last_seg(mir.callee_decl(t)))
        if f and (own is None or f == own or f in COMPAT.get(own, ())):
            fam.append((i, t, f))
    return fam[0] if len(fam) == 1 else None


def run_siblings(facts, report, config):
    groups = {}
    for b in facts.fn_bodies():
        if b["kind"] == "Closure" or not b.get("name"):
            continue
        parent = b["id"].rsplit("::", 1)[0]
        groups.setdefault(parent, {})[b["name"]] = b
    for parent, members in sorted(groups.items()):
        for name, bv in sorted(members.items()):
            if not name.endswith("_vartime"):
                continue
            bc = members.get(_strip_vt(name))
            if bc is None or family(name) is None:
                continue
            vv, vc = mir.BodyView(bv), mir.BodyView(bc)
            own = family(name)
            fv, fc = _one_family_call(vv, own), _one_family_call(vc, own)
            if fv is None or fc is None or vv.argc != vc.argc:
                continue
            if _strip_vt(mir.last_seg(mir.callee_name(fv[1]))) != _strip_vt(mir.last_seg(mir.callee_name(fc[1]))):
                continue
            if len(fv[1]["args"]) != len(fc[1]["args"]):
                continue
            report.count("vartime_sibling_pairs")
            key = "c15.sibling|%s" % norm_id(bv["id"])
            pv, pc = mir.Provenance(vv), mir.Provenance(vc)
            diffs = []
            soft = []
            for k, (av, ac) in enumerate(zip(fv[1]["args"], fc[1]["args"])):
                sv, sc = _prep_signature(vv, pv, av), _prep_signature(vc, pc, ac)
                if sv != sc:
                    msg = "operand %d of `%s`: %s prepares it as %s, %s as %s" % (
                        k, mir.last_seg(mir.callee_name(fv[1])), name, _fmt_sig(sv), bc["name"], _fmt_sig(sc))
                    # decisive only when one sibling transforms a parameter and the other passes the same parameter
                    # untouched; two different transformations may well be equivalent (abs vs abs_sign().0)
                    raw_v = {p for ch, p in sv if not ch and p}
                    raw_c = {p for ch, p in sc if not ch and p}
                    tr_v = {p for ch, p in sv if ch and p}
                    tr_c = {p for ch, p in sc if ch and p}
                    if (raw_v & tr_c) or (raw_c & tr_v):
                        diffs.append(msg)
                    else:
                        soft.append(msg)
            if soft and not diffs:
                report.add(Instance(key, "c15.sibling", "info", "siblings prepare an operand through different helpers; "
                                    "equivalence of the helpers is a value fact, not judged: " + "; ".join(soft), fv[1]["s"],
                                    {"vartime": bv["id"], "sibling": bc["id"]}), config)
                continue
            if diffs:
                report.add(Instance(key, "c15.sibling", "violation",
                                    "`%s` and its constant-time sibling `%s` reach the same operation with differently "
                                    "prepared operands, so the two routes can disagree: %s" % (
                                        name, bc["name"], "; ".join(diffs)), fv[1]["s"],
                                    {"vartime": bv["id"], "sibling": bc["id"]}), config)
            else:
                report.add(Instance(key, "c15.sibling", "ok",
                                    "auto: both siblings pass identically prepared operands to `%s`" %
                                    mir.last_seg(mir.callee_name(fv[1])), fv[1]["s"],
                                    {"vartime": bv["id"], "sibling": bc["id"]}), config)


def _fmt_sig(sig):
    parts = []
    for ch, p in sorted(sig, key=lambda x: (x[0], x[1] or 0)):
        s = "_%s" % p if p else "?"
        for c in reversed(ch):
            s = "%s(%s)" % (c, s)
        parts.append(s)
    return "{" + ", ".join(parts) + "}"


# ---------------------------------------------------------------------------------------------
# R6 overflow-mode agreement: an operator form that must panic on overflow does not forward to a wrapping or
# saturating form (and a checked form does not forward to a wrapping one), except on `Wrapping<T>`.

MODE_PREFIX = (("wrapping_", "wrapping"), ("checked_", "checked"), ("saturating_", "saturating"),
               ("overflowing_", "flagged"), ("carrying_", "flagged"), ("borrowing_", "flagged"), ("widening_", "wide"))
OVERFLOWING_FAMILIES = {"add", "sub", "mul", "neg", "square", "shl", "shr"}
OPERATOR_TRAITS = ("core::ops::",)


def _mode(name):
    for p, m in MODE_PREFIX:
        if (name or "").startswith(p):
            return m
    if name in ("adc", "sbb", "mac", "adc_assign", "sbb_assign"):
        return "flagged"
    return "plain"


def run_modes(facts, report, config, prefix="c15.mode", families=None, counter="operator_and_checked_forwarders"):
    fams = families or OVERFLOWING_FAMILIES
    for b in facts.fn_bodies():
        if b["kind"] == "Closure":
            continue
        own = family(b.get("name"))
        if own not in fams:
            continue
        my = _mode(b.get("name"))
        is_operator = my == "plain" and (b.get("impl_trait") or "").startswith(OPERATOR_TRAITS)
        if not is_operator and my != "checked":
            continue
        st = b.get("impl_self") or ""
        if "wrapping::Wrapping" in st or "modular::" in (st + b["id"]):
            continue    # Wrapping<T> wraps by definition; modular forms cannot overflow
        view = mir.BodyView(b)
        live = view.live_blocks()
        if any(view.blocks[i]["term"]["k"] == "switch" for i in live):
            continue
        calls = [view.blocks[i]["term"] for i in live if view.blocks[i]["term"]["k"] == "call"]
        if not (1 <= len(calls) <= 4):
            continue
        fam_calls = []
        for t in calls:
            if _neutral_callee(t):
                continue
            nm = mir.last_seg(mir.callee_name(t)) or mir.last_seg(mir.callee_decl(t))
            f = family(nm) or family(mir.last_seg(mir.callee_decl(t)))
            if f and (f == own or f in COMPAT.get(own, ())):
                fam_calls.append((t, nm))
        if len(fam_calls) != 1:
            continue
        t, nm = fam_calls[0]
        report.count(counter)
        key = "%s|%s" % (prefix, norm_id(b["id"]))
        cm = _mode(nm)
        if cm in ("wrapping", "saturating"):
            report.add(Instance(key, prefix, "violation",
                                "`%s` (%s form of `%s` on `%s`) forwards to the %s form `%s`: it must %s when the true "
                                "result is out of range, but the callee silently %s" % (
                                    b.get("name"), "operator" if is_operator else "checked", own, st, cm, nm,
                                    "panic" if is_operator else "report failure",
                                    "wraps" if cm == "wrapping" else "saturates"), t["s"],
                                {"body": b["id"], "callee": mir.callee_name(t)}), config)
        else:
            report.add(Instance(key, prefix, "ok", "auto: %s form forwards to the %s form `%s`" % (
                "operator" if is_operator else "checked", cm, nm), t["s"], {"body": b["id"]}), config)


# ---------------------------------------------------------------------------------------------
# R7 operator-forest agreement: the by-value / by-reference / mixed / assigning impls of one operator for one
# (self type, right-hand type) reach terminals of one overflow mode.

OPS = ("core::ops::Add", "core::ops::Sub", "core::ops::Mul", "core::ops::Neg", "core::ops::Shl", "core::ops::Shr")


def _op_base(tr):
    for o in OPS:
        if tr == o or tr == o + "Assign" or tr.startswith(o + "<") or tr.startswith(o + "Assign<"):
            return o
    return None


def _rhs_adt(view):
    if view.argc < 2:
        return "-"
    return mir.adt_of_ty(view.locals[2]) or mir.peel_refs(view.locals[2])


def run_forest(facts, report, config):
    from .. import flow as _flow
    eng = _flow.Engine(facts, _flow.Policy())
    groups = {}
    for b in facts.fn_bodies():
        o = _op_base(b.get("impl_trait") or "")
        if not o or b["kind"] == "Closure":
            continue
        st = mir.adt_of_ty(b.get("impl_self") or "") or (b.get("impl_self") or "")
        if "wrapping::Wrapping" in st or "checked::Checked" in st or "modular::" in st:
            continue
        view = mir.BodyView(b)
        groups.setdefault((o, st, _rhs_adt(view)), []).append((b, view))

    def terminal(b, view, members, depth=0):
        live = view.live_blocks()
        if any(view.blocks[i]["term"]["k"] == "switch" for i in live):
            return None
        calls = [view.blocks[i]["term"] for i in live if view.blocks[i]["term"]["k"] == "call"]
        fam = [t for t in calls if not _neutral_callee(t) and
               (family(mir.last_seg(mir.callee_name(t))) or family(mir.last_seg(mir.callee_decl(t))))]
        if len(fam) != 1:
            return None
        t = fam[0]
        ids = eng.callee_ids(t)
        if len(ids) == 1 and ids[0] in members and ids[0] != b["id"] and depth < 5:
            nb = facts.bodies[ids[0]]
            return terminal(nb, mir.BodyView(nb), members, depth + 1)
        return mir.callee_name(t) or mir.callee_decl(t)

    for (o, st, rhs), bs in sorted(groups.items()):
        members = {b["id"] for b, _ in bs}
        terms = {}
        for b, view in bs:
            tm = terminal(b, view, members)
            if tm is not None:
                terms.setdefault(_mode(mir.last_seg(tm)), []).append((b["id"], tm))
        if not terms:
            continue
        report.count("operator_forests")
        key = "c15.forest|%s|%s|%s" % (o.rsplit("::", 1)[1], norm_id(st), norm_id(rhs))
        if len(terms) > 1:
            desc = "; ".join("%s -> `%s` (%s form)" % (norm_id(i).rsplit(">::", 1)[0][-60:] + ">", mir.last_seg(tm), m)
                             for m, lst in sorted(terms.items()) for i, tm in lst[:2])
            report.add(Instance(key, "c15.forest", "violation",
                                "the by-value / by-reference / assigning impls of `%s` for `%s` (right-hand side `%s`) do not end "
                                "in the same kind of operation: %s — the same expression panics, wraps or widens depending on "
                                "whether its operands are borrowed" % (o.rsplit("::", 1)[1], st, rhs, desc),
                                bs[0][0]["span"], {"terminals": {m: [list(x) for x in lst] for m, lst in terms.items()}}), config)
        else:
            m = list(terms)[0]
            report.add(Instance(key, "c15.forest", "ok", "auto: all %d forwarding impls end in a %s form" % (
                len(terms[m]), m), bs[0][0]["span"], {}), config)
