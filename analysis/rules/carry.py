"""Carry discipline (C08/C09 clause): inside the modular-arithmetic routines (src/modular/**), the carry /
borrow returned by an adc / sbb / mac-family call is never silently dropped. A dropped carry makes the
following reduction see a stale or missing carry — wrong only when the discarded carry is non-zero, i.e.
for moduli with the top bit set and operands near the modulus."""
import re

from .. import mir
from ..common import Instance, norm_id, load_table

CARRY = re.compile(r"^(adc|sbb|mac|carrying_|borrowing_|conditional_adc|conditional_sbb|adc_assign|sbb_assign|"
                   r"add_mul_carry|overflowing_add|overflowing_sub|adc_mul_limbs|impl_longa)")
CARRY_TYS = ("limb::Limb", "u64", "subtle::Choice", "const_choice::ConstChoice")


def reads_of(view, local):
    out = set()

    def op(o):
        if o[0] in ("c", "m") and o[1][0] == local:
            out.add(mir.field_path(o[1][1]))

    for bb in view.blocks:
        if bb["cleanup"]:
            continue
        for s in bb["stmts"]:
            if s[0] != "a":
                continue
            rv = s[2]
            k = rv[0]
            if k in ("use", "repeat"):
                op(rv[1])
            elif k == "cast":
                op(rv[2])
            elif k == "bin":
                op(rv[2])
                op(rv[3])
            elif k == "un":
                op(rv[2])
            elif k == "agg":
                for o in rv[4]:
                    op(o)
            elif k in ("ref", "rawptr"):
                if rv[2][0] == local:
                    out.add(mir.field_path(rv[2][1]))
            elif k in ("cfd", "discr"):
                if rv[1][0] == local:
                    out.add(mir.field_path(rv[1][1]))
        t = bb["term"]
        if t["k"] == "call":
            for a in t["args"]:
                op(a)
        elif t["k"] == "switch":
            op(t["op"])
        elif t["k"] == "ret" and local == 0:
            out.add(())
    return out


def run(facts, report, config, scope_prefix=("modular::", "<modular::")):
    tab = load_table("c08.toml")
    reviewed = {e["key"]: e for e in tab.get("reviewed_carry", [])}
    used = set()
    ordn = {}
    for b in facts.fn_bodies():
        if not b["id"].startswith(scope_prefix):
            continue
        view = mir.BodyView(b)
        for bi, t in view.calls():
            if view.blocks[bi]["cleanup"]:
                continue
            seg = mir.last_seg(mir.callee_decl(t)) or ""
            if not CARRY.match(seg) or t["dst"][1]:
                continue
            ty = view.locals[t["dst"][0]]
            carry_path = None
            if ty in CARRY_TYS:
                carry_path = ()
            elif ty.startswith("("):
                comps = [c.strip() for c in ty[1:-1].split(", ")]
                if comps and comps[-1] in CARRY_TYS:
                    carry_path = (str(len(comps) - 1),)
            if carry_path is None:
                continue
            report.count("carry_returning_calls_in_modular")
            k0 = "carry|%s|%s" % (norm_id(b["id"]), seg)
            n = ordn.get(k0, 0)
            ordn[k0] = n + 1
            key = "%s|%d" % (k0, n)
            rd = reads_of(view, t["dst"][0])
            used_carry = () in rd or any(p[:len(carry_path)] == carry_path for p in rd) if carry_path else bool(rd)
            if carry_path == ():
                used_carry = bool(rd)
            if used_carry:
                report.add(Instance(key, "carry", "ok", "auto: the carry/borrow result of %s is consumed" % seg, t["s"],
                                    {"body": b["id"]}), config)
                continue
            e = reviewed.get(key)
            if e is not None:
                used.add(key)
                report.add(Instance(key, "carry", "reviewed", "reviewed: " + e["reason"], t["s"], {"body": b["id"]}), config)
            else:
                report.add(Instance(key, "carry", "violation",
                                    "the carry/borrow returned by `%s` is dropped in `%s`: the following reduction works "
                                    "with a stale or missing carry (wrong when the discarded carry is non-zero)" % (
                                        seg, b["id"]), t["s"], {"body": b["id"]}), config)
    for k in reviewed:
        if k not in used:
            report.stale.append({"table": "c08.toml", "key": k, "config": config})
