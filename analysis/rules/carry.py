"""Carry discipline (C08/C09 clause): inside the modular-arithmetic routines (src/modular/**), the carry /
borrow returned by an adc / sbb / mac-family call is never silently dropped. A dropped carry makes the
following reduction see a stale or missing carry — wrong only when the discarded carry is non-zero, i.e.
for moduli with the top bit set and operands near the modulus."""
import re

from .. import mir
from ..common import Instance, norm_id, load_table

CARRY = re.compile(r"^(adc|sbb|mac|carrying_|borrowing_|conditional_adc|conditional_sbb|adc_assign|sbb_assign|"
                   r"add_mul_carry|overflowing_add|overflowing_sub|overflowing_neg|adc_mul_limbs|impl_longa|"
                   r"shl1_assign$|overflowing_shl1$|shl1$|shr1$|shr1_with_carry$)")
CARRY_TYS = ("limb::Limb", "u64", "subtle::Choice", "const_choice::ConstChoice")
WIDE_CARRY = {"mac", "mul_wide", "carrying_mul", "mac_by_limb", "add_mul_carry"}


def reads_of(view, local):
    out = set()

    def op(o):
        if o[0] in ("c", "m") and o[1][0] == local:
            out.add(mir.field_path(o[1][1]))

    for bb in view.blocks:
        if bb["cleanup"]:
            continue
        for s in bb["stmts"]:
            if s[0] != "a":
                continue
            rv = s[2]
            k = rv[0]
            if k in ("use", "repeat"):
                op(rv[1])
            elif k == "cast":
                op(rv[2])
            elif k == "bin":
                op(rv[2])
                op(rv[3])
            elif k == "un":
                op(rv[2])
            elif k == "agg":
                for o in rv[4]:
                    op(o)
            elif k in ("ref", "rawptr"):
                if rv[2][0] == local:
                    out.add(mir.field_path(rv[2][1]))
            elif k in ("cfd", "discr"):
                if rv[1][0] == local:
                    out.add(mir.field_path(rv[1][1]))
        t = bb["term"]
        if t["k"] == "call":
            for a in t["args"]:
                op(a)
        elif t["k"] == "switch":
            op(t["op"])
        elif t["k"] == "ret" and local == 0:
            out.add(())
    return out


def _stmt_reads(s, local):
    """field paths of `local` read by statement s, and whether the read is a plain copy into a bare local"""
    out = []

    def op(o, plain_to=None):
        if o[0] in ("c", "m") and o[1][0] == local:
            out.append((mir.field_path(o[1][1]), plain_to))

    if s[0] != "a":
        return out
    rv = s[2]
    k = rv[0]
    dst = s[1]
    if k == "use":
        op(rv[1], dst[0] if not dst[1] else None)
    elif k == "repeat":
        op(rv[1])
    elif k == "cast":
        op(rv[2])
    elif k == "bin":
        op(rv[2])
        op(rv[3])
    elif k == "un":
        op(rv[2])
    elif k == "agg":
        for o in rv[4]:
            op(o)
    elif k in ("ref", "rawptr"):
        if rv[2][0] == local:
            out.append((mir.field_path(rv[2][1]), None))
    elif k in ("cfd", "discr"):
        if rv[1][0] == local:
            out.append((mir.field_path(rv[1][1]), None))
    # a projected store through the local (index operand etc.)
    for pe in dst[1]:
        if isinstance(pe, list) and pe and pe[0] == "i" and pe[1] == local:
            out.append(((), None))
    return out


def _compatible(read_path, want):
    n = min(len(read_path), len(want))
    return tuple(read_path[:n]) == tuple(want[:n])


def value_consumed(view, start, local, path, depth=0, seen=None):
    """Is the value stored in `local`.`path` by the definition just before position `start` = (bb, stmt index)
    read by anything but a chain of plain copies that are themselves never read, before being overwritten?
    (reaching-definition walk over the CFG, cleanup blocks ignored)"""
    if depth > 6:
        return True
    seen = set() if seen is None else seen
    work = [start]
    visited = set()
    while work:
        bi, si = work.pop()
        if (bi, si) in visited:
            continue
        visited.add((bi, si))
        bb = view.blocks[bi]
        if bb["cleanup"]:
            continue
        killed = False
        stmts = bb["stmts"]
        for j in range(si, len(stmts)):
            s = stmts[j]
            for rp, plain_to in _stmt_reads(s, local):
                if not _compatible(rp, path):
                    continue
                if plain_to is not None and plain_to != 0 and len(rp) >= len(path):
                    if (plain_to, bi, j) in seen:
                        continue
                    seen.add((plain_to, bi, j))
                    if value_consumed(view, (bi, j + 1), plain_to, (), depth + 1, seen):
                        return True
                else:
                    return True
            if s[0] == "a" and s[1][0] == local:
                wp = mir.field_path(s[1][1])
                if all(isinstance(pe, list) and pe[0] == "f" for pe in s[1][1]) and tuple(wp) == tuple(path[:len(wp)]):
                    killed = True
                    break
        if killed:
            continue
        t = bb["term"]
        k = t["k"]
        if k == "call":
            for a in t["args"]:
                if a[0] in ("c", "m") and a[1][0] == local and _compatible(mir.field_path(a[1][1]), path):
                    return True
            if t["dst"][0] == local and not t["dst"][1]:
                continue
        elif k == "switch":
            o = t["op"]
            if o[0] in ("c", "m") and o[1][0] == local:
                return True
        elif k == "ret":
            if local == 0:
                return True
            continue
        elif k in ("drop",):
            pass
        for nb in view.succ[bi]:
            if not view.blocks[nb]["cleanup"]:
                work.append((nb, 0))
    return False


def value_must_be_consumed(view, start, local, path, depth=0):
    """All-paths variant: returns the span-less position (bb, idx) of a point where the value dies unused (it is
    overwritten, or the function returns) on some path from the definition, or None when every path that
    neither diverges nor loops forever reads it first."""
    if depth > 4:
        return None
    work = [start]
    visited = set()
    while work:
        bi, si = work.pop()
        if (bi, si) in visited:
            continue
        visited.add((bi, si))
        bb = view.blocks[bi]
        if bb["cleanup"]:
            continue
        stmts = bb["stmts"]
        done = False
        for j in range(si, len(stmts)):
            s = stmts[j]
            used = False
            for rp, plain_to in _stmt_reads(s, local):
                if not _compatible(rp, path):
                    continue
                if plain_to is not None and plain_to != 0 and len(rp) >= len(path):
                    if value_must_be_consumed(view, (bi, j + 1), plain_to, (), depth + 1) is None:
                        used = True
                else:
                    used = True
            if used:
                done = True
                break
            if s[0] == "a" and s[1][0] == local:
                wp = mir.field_path(s[1][1])
                if all(isinstance(pe, list) and pe[0] == "f" for pe in s[1][1]) and tuple(wp) == tuple(path[:len(wp)]):
                    return (bi, j)
        if done:
            continue
        t = bb["term"]
        k = t["k"]
        if k == "call":
            if any(a[0] in ("c", "m") and a[1][0] == local and _compatible(mir.field_path(a[1][1]), path)
                   for a in t["args"]):
                continue
            if t["t"] is None:
                continue            # diverges
            if t["dst"][0] == local and not t["dst"][1]:
                return (bi, "term")
        elif k == "switch":
            o = t["op"]
            if o[0] in ("c", "m") and o[1][0] == local:
                continue
        elif k == "ret":
            if local == 0:
                continue
            return (bi, "ret")
        elif k == "unreach":
            continue
        for nb in view.succ[bi]:
            if not view.blocks[nb]["cleanup"]:
                work.append((nb, 0))
    return None


ADDBACK = re.compile(r"^conditional_(adc|add)(_assign)?$")
SUBTRACT = re.compile(r"^(sbb|sbb_assign|borrowing_sub|conditional_sbb_assign|conditional_sbb)$")


def _slice_calls(view, op, limit=400):
    """call terminators in the backward data-dependence slice of an operand: [(block, term)]"""
    from .subcmp import _ops_of_rv, _locals_of
    seen = set()
    work = list(_locals_of(op))
    out = []
    while work and len(seen) < limit:
        l = work.pop()
        if l in seen:
            continue
        seen.add(l)
        for d in view.defs.get(l, []):
            t = d.get("term")
            if t is not None:
                out.append((d["bb"], t))
                for a in t["args"]:
                    work += _locals_of(a)
            elif d.get("rv"):
                for o in (_ops_of_rv(d["rv"]) or []):
                    work += _locals_of(o)
    return out


def _root_keys(prov, op):
    return {(r.kind, r.what, r.site) for r in mir.uniq_roots(prov.roots_of_operand(op)) if r.kind in ("param", "call")}


def is_addback(view, bi, t):
    """`x.conditional_adc_assign(p, c)` where `c` derives from the borrow of the subtraction that produced `x` (in place
    on the same receiver, or `x` is that subtraction's result): the classic subtract / add-the-modulus-back-on-borrow step.
    The carry out of the add-back is, by construction, the cancellation of that borrow — discarding it is the idiom."""
    seg = mir.last_seg(mir.callee_decl(t)) or ""
    if not ADDBACK.match(seg) or len(t["args"]) < 3:
        return None
    prov = mir.Provenance(view)
    recv = _root_keys(prov, t["args"][0])
    for cb, ct in _slice_calls(view, t["args"][-1]):
        cseg = mir.last_seg(mir.callee_decl(ct)) or ""
        if not SUBTRACT.match(cseg) or (cb, ct) == (bi, t) or not ct["args"]:
            continue
        if ("call", mir.callee_name(ct), (cb, "term")) in recv:
            return cseg        # the receiver is the difference returned by that subtraction
        if cseg.endswith("_assign") and recv & _root_keys(prov, ct["args"][0]):
            return cseg        # subtraction in place on the same receiver
    return None


def run(facts, report, config, scope_prefix=("modular::", "<modular::"), exclude_prefix=(), table="c08.toml",
        auto_wrapping=False, counter="carry_returning_calls_in_modular", stale_check=True, body_filter=None):
    """Reviewed drops are keyed by (function, callee) with a count `drops` (default 1): an edit that adds or
    reorders *consumed* carry calls changes nothing; one that drops a further carry exceeds the count."""
    tab = load_table(table)
    reviewed = {e["key"]: e for e in tab.get("reviewed_carry", [])}
    used = set()
    for b in facts.fn_bodies():
        if scope_prefix is not None and not b["id"].startswith(scope_prefix):
            continue
        if exclude_prefix and b["id"].startswith(exclude_prefix):
            continue
        if body_filter is not None and not body_filter(b):
            continue
        view = mir.BodyView(b)
        dropped = {}
        partial = {}
        nseg = {}
        for bi, t in view.calls():
            if view.blocks[bi]["cleanup"]:
                continue
            seg = mir.last_seg(mir.callee_decl(t)) or ""
            if not CARRY.match(seg) or t["dst"][1]:
                continue
            ty = view.locals[t["dst"][0]]
            carry_path = None
            if ty in CARRY_TYS:
                carry_path = ()
            elif ty.startswith("("):
                comps = [c.strip() for c in ty[1:-1].split(", ")]
                if comps and comps[-1] in CARRY_TYS:
                    carry_path = (str(len(comps) - 1),)
            if carry_path is None:
                continue
            report.count(counter)
            k0 = "carry|%s|%s" % (norm_id(b["id"]), seg)
            n = nseg.get(k0, 0)
            nseg[k0] = n + 1
            if t["t"] is None:
                continue
            used_carry = value_consumed(view, (t["t"], 0), t["dst"][0], carry_path)
            if used_carry:
                dies = value_must_be_consumed(view, (t["t"], 0), t["dst"][0], carry_path)
                if dies is not None:
                    partial.setdefault("carry.final|%s|%s" % (norm_id(b["id"]), seg), []).append((seg, t["s"]))
                    continue
                report.add(Instance("%s|call%d" % (k0, n), "carry", "ok",
                                    "auto: the carry/borrow result of %s is consumed on every path" % seg, t["s"],
                                    {"body": b["id"]}), config)
                continue
            if auto_wrapping and ("wrapping" in (b.get("name") or "") or "wrapping::Wrapping<" in (b.get("impl_self") or "")):
                report.add(Instance("%s|call%d" % (k0, n), "carry", "ok",
                                    "auto: wrapping form — discarding the carry/borrow is its definition",
                                    t["s"], {"body": b["id"]}), config)
                continue
            ab = is_addback(view, bi, t)
            if ab:
                report.add(Instance("%s|call%d" % (k0, n), "carry", "ok",
                                    "auto: add-back gated by the borrow of the `%s` that produced the receiver — the carry out "
                                    "cancels that borrow" % ab, t["s"], {"body": b["id"]}), config)
                continue
            dropped.setdefault(k0, []).append((seg, t["s"]))
        # a full-width carry (the high word of a multiply-accumulate) must be propagated with a carrying add: summing it
        # with `wrapping_add` loses the overflow when it meets another carry (MAX + 1 wraps to 0)
        prov = None
        for bi, t in view.calls():
            if view.blocks[bi]["cleanup"] or (mir.last_seg(mir.callee_name(t)) or "") not in ("wrapping_add", "wrapping_sub"):
                continue
            if not t["args"] or t["args"][0][0] not in ("c", "m") or \
                    mir.peel_refs(view.locals[t["args"][0][1][0]]) != "limb::Limb":
                continue
            prov = prov or mir.Provenance(view)
            wide = []
            for a in t["args"]:
                roots = mir.uniq_roots(prov.roots_of_operand(a))
                nonconst = [r for r in roots if r.kind != "const"]
                if nonconst and all(r.kind == "call" and (mir.last_seg(r.what) or "") in WIDE_CARRY and r.path and
                                    r.path[-1] == "1" for r in nonconst):
                    wide.append(mir.last_seg(nonconst[0].what))
            if not wide:
                continue
            report.count(counter)
            k1 = "carry.widesum|%s|%s" % (norm_id(b["id"]), wide[0])
            e = reviewed.get(k1)
            if e is not None:
                used.add(k1)
                report.add(Instance(k1, "carry.widesum", "reviewed", "reviewed: " + e["reason"], t["s"], {"body": b["id"]}), config)
            else:
                report.add(Instance(k1, "carry.widesum", "violation",
                                    "the full-width carry returned by `%s` is added with `%s` in `%s`: when it is MAX and meets "
                                    "another carry the sum wraps to zero and 2^64 (one unit of the next limb) is lost — a "
                                    "carrying add (`adc`) is needed" % (wide[0], mir.last_seg(mir.callee_name(t)), b["id"]),
                                    t["s"], {"body": b["id"]}), config)
        for k0, sites in partial.items():
            e = reviewed.get(k0)
            allowed = int(e.get("drops", 1)) if e is not None else 0
            if e is not None:
                used.add(k0)
            if len(sites) <= allowed:
                report.add(Instance(k0, "carry.final", "reviewed", "reviewed (%d site(s), %d reviewed): %s" % (
                    len(sites), allowed, e["reason"]), sites[0][1], {"body": b["id"], "sites": [x for _, x in sites]}), config)
            else:
                report.add(Instance(k0, "carry.final", "violation",
                                    "the carry/borrow returned by `%s` in `%s` is consumed on some paths but dies unused on "
                                    "another (overwritten by the next link of the chain, or the function returns) at %d "
                                    "site(s), %d reviewed: a chain whose carry-out is not fed into the next step, or a final "
                                    "carry that is silently discarded" % (sites[0][0], b["id"], len(sites), allowed),
                                    sites[-1][1], {"body": b["id"], "sites": [x for _, x in sites]}), config)
        for k0, sites in dropped.items():
            e = reviewed.get(k0)
            allowed = int(e.get("drops", 1)) if e is not None else 0
            if e is not None:
                used.add(k0)
            if len(sites) <= allowed:
                report.add(Instance(k0, "carry", "reviewed", "reviewed (%d dropped, %d reviewed): %s" % (
                    len(sites), allowed, e["reason"]), sites[0][1], {"body": b["id"], "sites": [s for _, s in sites]}), config)
            else:
                seg = sites[0][0]
                report.add(Instance(k0, "carry", "violation",
                                    "the carry/borrow returned by `%s` is dropped at %d site(s) in `%s` (%d reviewed): the "
                                    "following steps work with a stale or missing carry (wrong when the discarded carry is "
                                    "non-zero)" % (seg, len(sites), b["id"], allowed), sites[-1][1],
                                    {"body": b["id"], "sites": [s for _, s in sites]}), config)
    for k in reviewed:
        if k not in used and stale_check:
            report.stale.append({"table": table, "key": k, "config": config})
