"""C11 clause (c) — a BoxedUint always has at least one limb (operations index limbs[0] and
limbs[len-1] unconditionally, so totality of the boxed API rests on it).

Every aggregate construction `BoxedUint { limbs }` must be: derived from an existing BoxedUint's limbs
(clone / to_limbs / collect over its iterator), a `vec![x; n]` with literal n >= 1 or n = nlimbs()/len()
of an existing BoxedUint, dominated by an emptiness guard on the same vector, or reviewed.
"""
import re

from .. import mir
from ..common import Instance, norm_id, load_table

ADT = "uint::boxed::BoxedUint"
VP = {"into", "clone", "to_limbs", "into_boxed_slice", "into_vec", "to_vec", "as_ref", "deref", "from", "collect",
      "map", "iter", "copied", "cloned", "into_iter", "rev", "zip"}


class LimbsProv(mir.Provenance):
    def is_vp(self, term):
        if super().is_vp(term):
            return True
        return mir.last_seg(mir.callee_decl(term)) in VP and len(term["args"]) >= 1


def run(facts, report, config):
    tab = load_table("c11.toml")
    reviewed = {e["key"]: e for e in tab.get("reviewed_boxed", [])}
    used = set()
    ordn = {}
    for b in facts.body_list:
        if b["kind"] == "AnonConst":
            continue
        view = None
        for bi, bb in enumerate(b["blocks"]):
            if bb["cleanup"]:
                continue
            for s in bb["stmts"]:
                if not (s[0] == "a" and s[2][0] == "agg" and s[2][2] == ADT):
                    continue
                view = view or mir.BodyView(b)
                prov = LimbsProv(view)
                op = s[2][4][0]
                roots = mir.uniq_roots(prov.roots_of_operand(op))
                k0 = "c11.boxed|%s" % norm_id(b["id"])
                n = ordn.get(k0, 0)
                ordn[k0] = n + 1
                key = "%s|%d" % (k0, n)
                report.count("boxed_uint_constructions")
                how = None
                fp = sorted(repr(r) for r in roots)
                roots = [r for r in roots if r.kind != "multi"]   # in-place limb stores do not change the length
                fp = sorted(repr(r) for r in roots)

                def from_boxed(r):
                    if r.kind == "param":
                        return mir.adt_of_ty(view.locals[r.what]) == ADT and r.path[:1] in ((), ("limbs",))
                    if r.kind == "call" and r.site is not None:
                        tt = view.blocks[r.site[0]]["term"]
                        return ADT in view.locals[tt["dst"][0]] and \
                            any(mir.last_seg(x) in ("to_limbs", "clone") for x in r.via)
                    return False

                # (i) derived from an existing BoxedUint
                if roots and all(from_boxed(r) for r in roots):
                    how = "derived from the limbs of an existing BoxedUint (%s)" % ", ".join(fp)
                # (ii) vec![x; n]
                if how is None and len(roots) == 1 and roots[0].kind == "call" and \
                        (roots[0].what or "").startswith("alloc::vec::from_elem"):
                    t = view.blocks[roots[0].site[0]]["term"]
                    nop = t["args"][1]
                    if nop[0] == "k":
                        m = re.match(r"(\d+)_usize", nop[2])
                        if m and int(m.group(1)) >= 1:
                            how = "vec![_; %s] with a literal length >= 1" % m.group(1)
                    else:
                        nr = mir.uniq_roots(prov.roots_of_operand(nop))
                        if nr and all(r.kind == "call" and mir.last_seg(r.what) in ("nlimbs", "len") for r in nr):
                            okp = True
                            for r in nr:
                                tt = view.blocks[r.site[0]]["term"]
                                rr = mir.uniq_roots(prov.roots_of_operand(tt["args"][0])) if tt["args"] else []
                                if not rr or not all(x.kind == "param" and mir.adt_of_ty(view.locals[x.what]) == ADT
                                                     for x in rr):
                                    okp = False
                            if okp:
                                how = "vec![_; n] with n = nlimbs()/len() of an existing BoxedUint"
                # (iii) emptiness guard on the same vector
                if how is None:
                    for d in view.dominators(bi):
                        tt = view.blocks[d]["term"]
                        if tt["k"] != "switch":
                            continue
                        rs = mir.uniq_roots(mir.Provenance(view).roots_of_operand(tt["op"]))
                        if len(rs) == 1 and rs[0].kind == "call" and mir.last_seg(rs[0].what) == "is_empty":
                            ct = view.blocks[rs[0].site[0]]["term"]
                            vr = mir.uniq_roots(prov.roots_of_operand(ct["args"][0]))
                            if {x.key() for x in vr if x.kind != "multi"} & {x.key() for x in roots if x.kind != "multi"}:
                                # the non-empty path or a push on the empty path
                                how = "dominated by an is_empty() branch on the same vector (a limb is pushed when empty)"
                detail = {"body": b["id"], "roots": fp}
                if how:
                    report.add(Instance(key, "c11.boxed", "ok", "auto: " + how, s[3], detail), config)
                    continue
                e = reviewed.get(key)
                if e is not None and sorted(e.get("roots", [])) == fp:
                    used.add(key)
                    report.add(Instance(key, "c11.boxed", "reviewed", "reviewed: " + e["reason"], s[3], detail), config)
                elif e is not None:
                    used.add(key)
                    report.add(Instance(key, "c11.boxed", "violation",
                                        "reviewed entry invalidated: the limbs now come from %s (was %s)" % (
                                            fp, sorted(e.get("roots", []))), s[3], detail), config)
                else:
                    report.add(Instance(key, "c11.boxed", "violation",
                                        "BoxedUint { limbs } built from %s with no guarantee of at least one limb: "
                                        "operations index limbs[0] / limbs[len-1] unconditionally" % fp, s[3], detail),
                               config)
    for k in reviewed:
        if k not in used:
            report.stale.append({"table": "c11.toml", "key": k, "config": config})
