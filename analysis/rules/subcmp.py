"""Ordering decided from a wrapped difference alone (C06 clause `c06.subcmp`).

`a - b mod 2^n` does not determine whether `a < b`: for every difference `d != 0` there are pairs with `a < b` and pairs
with `a > b` that produce it (unsigned: `(0, 1)` / `(2^n - 1, 0)` give the same sign bit; signed: `MIN - 1` wraps).  A
comparison routine whose result depends on its operands *only* through the result of a `wrapping_sub` / `wrapping_add`
(typically followed by a sign-bit test) therefore disagrees with the mathematical order for some operands.  The rule
slices the return value backwards over data and control dependences to the parameters twice — once normally, once with
the results of wrapped subtractions / additions cut — and reports the function when the operands are reachable only
through the cut.  A routine that also consults the borrow, the operands' sign bits or anything else about the operands
keeps a second route and is not judged (whether that route is the right correction is a value question).
"""
import re

from .. import mir
from ..common import Instance, norm_id

FAMILY = re.compile(r"^(ct_)?(lt|gt|le|ge|cmp)(_vartime)?$|^partial_cmp$|^(max|min)$")
CUT = re.compile(r"^(wrapping_sub|wrapping_add|sub|add)$")


def _ops_of_rv(rv):
    k = rv[0]
    if k == "use":
        return [rv[1]]
    if k in ("ref", "rawptr"):
        return [("c", rv[2])]
    if k == "cfd":
        return [("c", rv[1])]
    if k == "cast":
        return [rv[2]]
    if k == "bin":
        return [rv[2], rv[3]]
    if k == "un":
        return [rv[2]]
    if k == "agg":
        return list(rv[4])
    if k == "discr":
        return [("c", rv[1])]
    if k == "repeat":
        return [rv[1]]
    if k == "len":
        return [("c", rv[1])]
    return None


def _locals_of(op):
    if op[0] == "k":
        return []
    out = [op[1][0]]
    out += mir.index_locals(op[1][1])
    return out


def _slice(view, cut):
    """(reaches a parameter?, number of cut call results met)"""
    seen = set()
    work = [0]
    cuts = 0
    while work:
        l = work.pop()
        if l in seen:
            continue
        seen.add(l)
        if 1 <= l <= view.argc:
            return True, cuts
        defs = view.defs.get(l, [])
        if not defs:
            return True, cuts       # unknown origin: assume an independent route (stay silent)
        for d in defs:
            blocks = [d["bb"]]
            if d["kind"] == "mutborrow":
                return True, cuts   # mutated through a borrow: not followed, assume an independent route
            t = d.get("term")
            if t is not None:
                seg = mir.last_seg(mir.callee_name(t) or "") or ""
                if cut and CUT.match(seg):
                    cuts += 1
                else:
                    for a in t["args"]:
                        work += _locals_of(a)
            else:
                rv = d.get("rv")
                ops = _ops_of_rv(rv) if rv else None
                if ops is None:
                    return True, cuts
                for o in ops:
                    work += _locals_of(o)
            for bb in blocks:
                for s in view.value_controlling_switches(bb):
                    work += _locals_of(view.blocks[s]["term"]["op"])
    return False, cuts


def run(facts, report, config, prefix="c06.subcmp", counter="comparison_routines_sliced"):
    for b in facts.fn_bodies():
        if b.get("derived") or b["kind"] == "Closure":
            continue
        if not FAMILY.match(b.get("name") or ""):
            continue
        view = mir.BodyView(b)
        if view.argc < 2:
            continue
        report.count(counter)
        key = "%s|%s" % (prefix, norm_id(b["id"]))
        plain, _ = _slice(view, False)
        if not plain:
            report.add(Instance(key, prefix, "info", "result does not reach the operands by local data flow (forwarded "
                                "through memory or constant): not judged", b["span"], {"body": b["id"]}), config)
            continue
        cutreach, cuts = _slice(view, True)
        if not cutreach and cuts:
            report.add(Instance(key, prefix, "violation",
                                "`%s` decides the order of its operands from the result of a wrapped subtraction / addition "
                                "alone (%d such call(s) are the only route from the operands to the result): the wrapped "
                                "difference does not determine the order (e.g. MIN vs 1, or 0 vs 2^n - 1)" % (
                                    b.get("name"), cuts), b["span"], {"body": b["id"]}), config)
        else:
            report.add(Instance(key, prefix, "ok", "auto: the result reaches the operands without passing through a wrapped "
                                "difference (%d wrapped add/sub call(s) in the slice)" % cuts, b["span"],
                                {"body": b["id"]}), config)
