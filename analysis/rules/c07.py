"""C07 (two structural clauses) — modular add / sub / neg / double / special-modulus mul / halving.

(a) carry discipline (the C04 rule and table) over exactly these routines: the borrow of the trial subtraction and
    the carry of the addition are what decides the correction by p; a dropped one makes the correction wrong for
    operands near p.
(b) operand completeness: the value returned (or left in the `&mut self` receiver by the assigning forms) depends,
    in the label-flow summary, on every operand including the modulus — a routine whose result ignores p cannot
    return the canonical residue for all p (the correction step is missing).
"""
import re

from .. import mir, flow
from ..common import Instance, norm_id

SCOPE = re.compile(r"^(add_mod|sub_mod|neg_mod|double_mod|mul_mod|square_mod|div_by_2|sub_mod_with_carry|"
                   r"sub_assign_mod_with_carry|add_mod_assign)(_special|_vartime|_assign|_boxed|_boxed_assign)*$")


def in_scope(b):
    nm = b.get("name") or ""
    if b["kind"] == "Closure":
        nm = b["id"].split("::{closure")[0].rsplit("::", 1)[-1]
    return bool(SCOPE.match(nm))


def run_completeness(facts, report, config):
    eng = flow.Engine(facts, flow.Policy())
    eng.run_all(collect=False)
    for b in facts.fn_bodies():
        if b["kind"] == "Closure" or not in_scope(b) or not b.get("reach"):
            continue
        view = eng.view(b["id"])
        if view.argc < 2:
            continue
        summ = eng.summaries.get(b["id"])
        if summ is None:
            continue
        report.count("modular_routines")
        key = "c07.complete|%s" % norm_id(b["id"])
        so = b.get("sig_out") or ""
        names = b.get("names") or {}
        inplace = so in ("()", "") and view.locals[1].startswith("&mut")
        if inplace:
            val = summ.outs.get(1)
            labels = flow.v_flat(val) if val is not None else frozenset()
            have = {1}
        else:
            labels = flow.v_flat(summ.ret)
            have = set()
        for l in labels:
            if l.startswith("@"):
                have.add(int(l[1:].split(".")[0].split("#")[0]))
        want = set()
        for p in range(1, view.argc + 1):
            ty = mir.peel_refs(view.locals[p])
            if ty in ("u32", "usize", "bool") or "MontyParams" in ty:
                continue
            want.add(p)
        miss = sorted(want - have)
        detail = {"body": b["id"], "depends_on": sorted(have), "operands": sorted(want), "in_place": inplace}
        if miss:
            report.add(Instance(key, "c07.complete", "violation",
                                "the result of `%s` does not depend on operand(s) %s: a modular operation whose result "
                                "ignores %s cannot be the canonical residue for every input (a reduction / correction step "
                                "is missing)" % (b.get("name"), ["_%d (%s)" % (p, names.get(str(p), "?")) for p in miss],
                                                 "it" if len(miss) == 1 else "them"), b["span"], detail), config)
        else:
            report.add(Instance(key, "c07.complete", "ok", "auto: the result depends on every operand %s" % sorted(want),
                                b["span"], detail), config)
