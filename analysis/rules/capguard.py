"""Length-vs-capacity guard for copies of caller-sized slices (C11 clause (b), C16 clause (c), C18).

Sinks: calls to `copy_from_slice` / `clone_from_slice` (they panic on a length mismatch) inside a
body that reports failure through its return type (Result / Option / CtOption), whose *source*
derives from a parameter of that body. Requirement: some SwitchInt dominating the sink
  * has an error exit (a successor from which the sink is unreachable and a normal return is
    reachable), and
  * its operand's backward slice contains both the length of the sink's source and the length of the
    sink's destination object (a comparison / checked subtraction of the two).
`saturating_sub` produces no branch, and a `?` on the source length alone mentions only one of the
two lengths: both fail the rule.
"""
from .. import mir
from ..common import Instance, norm_id

FALLIBLE = ("core::result::Result<", "core::option::Option<", "subtle::CtOption<", "const_choice::ConstCtOption<")
COPY_SEGS = {"copy_from_slice", "clone_from_slice"}
VP_SEGS = {"as_ref", "as_mut", "deref", "deref_mut", "index", "index_mut", "as_bytes", "as_slice", "as_mut_slice",
           "borrow", "borrow_mut", "clone", "into", "as_limbs", "as_words", "as_words_mut", "as_limbs_mut",
           "get_unchecked", "iter", "into_iter"}
LEN_SEGS = {"len"}


class SliceProv(mir.Provenance):
    def is_vp(self, term):
        if super().is_vp(term):
            return True
        return mir.last_seg(mir.callee_decl(term)) in VP_SEGS and len(term["args"]) >= 1


def _ret_ty(view):
    return view.locals[0]


def backward_len_nodes(view, prov, op):
    """Roots of every `len`-like receiver in the backward slice of operand `op`."""
    out = []
    seen = set()
    work = []

    def push(o):
        if o[0] in ("c", "m"):
            work.append(o[1][0])
            for il in mir.index_locals(o[1][1]):
                work.append(il)

    push(op)
    while work:
        l = work.pop()
        if l in seen:
            continue
        seen.add(l)
        for d in view.defs.get(l, []):
            t = d.get("term")
            if t is not None:
                seg = mir.last_seg(mir.callee_decl(t))
                if seg in LEN_SEGS and t["args"]:
                    out.append(mir.uniq_roots(prov.roots_of_operand(t["args"][0])))
                for a in t["args"]:
                    push(a)
            rv = d.get("rv")
            if rv is not None:
                if rv[0] == "un" and rv[1] == "PtrMetadata":
                    out.append(mir.uniq_roots(prov.roots_of_operand(rv[2])))
                for o in _ops(rv):
                    push(o)
                if rv[0] in ("ref", "rawptr"):
                    work.append(rv[2][0])
                elif rv[0] in ("cfd", "discr"):
                    work.append(rv[1][0])
    return out


def _ops(rv):
    k = rv[0]
    if k in ("use", "repeat"):
        return [rv[1]]
    if k == "cast":
        return [rv[2]]
    if k == "bin":
        return [rv[2], rv[3]]
    if k == "un":
        return [rv[2]]
    if k == "agg":
        return list(rv[4])
    return []


def _same(ra, rb):
    ka = {(r.kind, r.what, r.site) for r in ra if r.kind not in ("multi",)}
    kb = {(r.kind, r.what, r.site) for r in rb if r.kind not in ("multi",)}
    return bool(ka & kb)


def run(facts, report, config, scope="all"):
    for b in facts.fn_bodies():
        view = mir.BodyView(b)
        if not _ret_ty(view).startswith(FALLIBLE):
            continue
        bid = b["id"]
        in_codec = ("encoding::der" in bid) or ("encoding::rlp" in bid)
        if scope == "codec" and not in_codec:
            continue
        if scope == "encoding" and in_codec:
            continue
        prov = None
        n = 0
        for bi, t in view.calls():
            if view.blocks[bi]["cleanup"]:
                continue
            seg = mir.last_seg(mir.callee_decl(t))
            if seg not in COPY_SEGS or len(t["args"]) < 2:
                continue
            prov = prov or SliceProv(view)
            src_roots = mir.uniq_roots(prov.roots_of_operand(t["args"][1]))
            dst_roots = mir.uniq_roots(prov.roots_of_operand(t["args"][0]))
            report.count("copy_sites_in_fallible_bodies")
            if not any(r.kind == "param" for r in src_roots):
                continue
            report.count("caller_sized_copies")
            key = "capguard|%s|%s|%d" % (norm_id(bid), seg, n)
            n += 1
            # codec paths: the copied source must be the whole encoded magnitude — a sub-slice of the input drops
            # octets of the encoding without looking at them (a truncated / wrapped value instead of an error)
            if scope == "codec":
                report.count("codec_copy_sources")
                sliced = sorted({mir.last_seg(v) for r in src_roots for v in r.via
                                 if mir.last_seg(v) in ("index", "index_mut", "get", "get_unchecked", "split_at",
                                                        "split_first", "split_last", "strip_prefix", "trim_ascii_start")})
                tkey = "capguard.truncate|%s|%s|%d" % (norm_id(bid), seg, n)
                if sliced:
                    report.add(Instance(tkey, "capguard.truncate", "violation",
                                        "the copied source is a sub-slice of the decoded input (through %s): octets of the "
                                        "encoding are dropped without being examined, so an oversized encoding yields a "
                                        "truncated value instead of an error" % sliced, t["s"],
                                        {"body": bid, "source": [repr(r) for r in src_roots]}), config)
                else:
                    report.add(Instance(tkey, "capguard.truncate", "ok",
                                        "auto: the copy takes the whole input slice (no sub-slicing on the way)", t["s"],
                                        {"body": bid}), config)
            verdict = None
            seen_guards = []
            for d in view.dominators(bi):
                tt = view.blocks[d]["term"]
                if tt["k"] != "switch":
                    continue
                exits = [s for s in tt["t"] if not view.can_reach(s, bi) and not view.diverges(s)]
                if not exits:
                    continue
                lens = backward_len_nodes(view, prov, tt["op"])
                has_src = any(_same(r, src_roots) for r in lens)
                has_dst = any(_same(r, dst_roots) for r in lens)
                seen_guards.append({"span": tt["s"], "mentions_source_len": has_src, "mentions_dest_len": has_dst})
                if has_src and has_dst:
                    verdict = tt["s"]
                    break
            detail = {"body": bid, "source": [repr(r) for r in src_roots], "dest": [repr(r) for r in dst_roots],
                      "dominating_error_exits": seen_guards}
            if verdict:
                report.add(Instance(key, "capguard", "ok",
                                    "auto: dominated by the error-exit branch at %s whose condition compares the "
                                    "source length with the destination length" % verdict, t["s"], detail), config)
            else:
                report.add(Instance(key, "capguard", "violation",
                                    "`%s` of a parameter-derived slice into a buffer is not dominated by an "
                                    "error-exit branch comparing both lengths: an oversized input panics instead "
                                    "of returning an error" % seg, t["s"], detail), config)
