"""Byte-order naming agreement (C12 rule 5, C16 clause (a)).

A function whose own name carries the token `le` (resp. `be`) must not call a function whose name
carries the opposite token. Names are the last path segment split at '_'; the declared callee is
used when the call is on a type parameter (`T::from_be_byte_array`).
"""
from .. import mir
from ..common import Instance, norm_id


def order_of(seg):
    if not seg:
        return None
    toks = seg.lower().split("_")
    le = "le" in toks
    be = "be" in toks
    if le and not be:
        return "le"
    if be and not le:
        return "be"
    return None


def run(facts, report, config, prop, scope="all"):
    exceptions = {}
    for b in facts.fn_bodies():
        name = b.get("name")
        if b["kind"] == "Closure":
            # closures inherit the order of their enclosing function
            parent = b["id"].split("::{closure")[0]
            name = mir.last_seg(parent)
        mine = order_of(name)
        if mine is None:
            continue
        if scope == "wrappers":
            s = (b.get("impl_self") or "") + b["id"]
            if "non_zero::NonZero" not in s and "odd::Odd" not in s:
                continue
        view = mir.BodyView(b)
        for bi, t in view.calls():
            if view.blocks[bi]["cleanup"]:
                continue
            decl = mir.callee_decl(t)
            res = mir.callee_name(t)
            for cand in {mir.last_seg(decl), mir.last_seg(res)}:
                theirs = order_of(cand)
                if theirs is None:
                    continue
                key = "byteorder|%s|%s" % (norm_id(b["id"]), cand)
                report.count("byteorder_pairs")
                if theirs == mine:
                    report.add(Instance(key, "byteorder", "ok", "auto: same byte order (%s)" % mine, t["s"],
                                        {"caller": b["id"], "callee": res or decl}), config)
                else:
                    report.add(Instance(key, "byteorder", "violation",
                                        "`%s` (named %s-endian) calls `%s` (named %s-endian)" % (
                                            name, mine, res or decl, theirs), t["s"],
                                        {"caller": b["id"], "callee": res or decl}), config)
