"""Arithmetic in the narrow type, widened afterwards (`widenlate`; C07 and C11).

`(carry + 1) as WideWord * c as WideWord` computes `carry + 1` in `Word` and widens the *sum*: when `carry` is `Word::MAX`
the addition traps in builds with overflow checks and wraps to zero otherwise — the wide type that was meant to make
room for the result is applied one step too late.  The rule: the result of an unsigned `Add` / `Mul` / `Shl` whose only
consumer is an integer cast to a strictly wider type, and none of whose operands is visibly range-limited (a cast from a
narrower type, a `bool`, a masked or right-shifted value, a constant below the type's maximum paired with such a
value), is reported.  Subtractions are not judged (widening does not repair an unsigned underflow).

Found `mul_mod_special` (fixed and boxed) for the modulus `2^BITS - Word::MAX`, where the carry of HAC 14.47's first
folding reaches `Word::MAX`."""
from .. import mir
from ..common import Instance, norm_id

W = {"u8": 8, "u16": 16, "u32": 32, "u64": 64, "u128": 128, "usize": 64}


def _small(view, op, depth=0):
    """visibly range-limited operand: cannot be the type's maximum"""
    if op[0] == "k":
        return False
    l, proj = op[1]
    if proj or depth > 4:
        return False
    ty = view.locals[l]
    if ty == "bool":
        return True
    for d in view.defs.get(l, []):
        rv = d.get("rv")
        if not rv:
            return False
        k = rv[0]
        if k == "cast" and rv[1] == "IntToInt" and rv[2][0] != "k" and not rv[2][1][1]:
            sty = view.locals[rv[2][1][0]]
            if sty == "bool" or W.get(sty, 999) < W.get(ty, 0):
                continue
            return False
        if k == "bin" and rv[1] in ("BitAnd", "Shr", "ShrUnchecked", "Rem", "Div"):
            continue
        if k == "use" and rv[1][0] != "k":
            if _small(view, rv[1], depth + 1):
                continue
            return False
        return False
    return bool(view.defs.get(l))


def run(facts, report, config, select=None, prefix="c11.widenlate", counter="narrow_arithmetic_sites"):
    for b in facts.fn_bodies():
        if b.get("derived") or (select is not None and not select(b)):
            continue
        view = mir.BodyView(b)
        arith = {}
        for bi, bb in enumerate(view.blocks):
            if bb["cleanup"]:
                continue
            for s in bb["stmts"]:
                if s[0] == "a" and s[2][0] == "bin" and not s[1][1]:
                    base = s[2][1].replace("WithOverflow", "").replace("Unchecked", "")
                    if base in ("Add", "Mul", "Shl"):
                        arith[s[1][0]] = (s[2][1], s[2], s[3])
        if not arith:
            continue
        report.count(counter, len(arith))
        # consumers of each arithmetic result (directly, or of its `.0` for the WithOverflow pair)
        for l, (op, rv, span) in arith.items():
            uses = []
            for bi, bb in enumerate(view.blocks):
                if bb["cleanup"]:
                    continue
                for s in bb["stmts"]:
                    if s[0] != "a":
                        continue
                    for o in _operands(s[2]):
                        if o[0] in ("c", "m") and o[1][0] == l:
                            fp = mir.field_path(o[1][1])
                            if fp and fp[0] == "1":
                                continue        # the overflow flag of the pair
                            uses.append((s, o))
                t = bb["term"]
                if t["k"] == "call":
                    for o in t["args"]:
                        if o[0] in ("c", "m") and o[1][0] == l:
                            uses.append((None, o))
                elif t["k"] == "switch" and t["op"][0] in ("c", "m") and t["op"][1][0] == l:
                    uses.append((None, t["op"]))
            # follow one plain copy
            if len(uses) == 1 and uses[0][0] is not None and uses[0][0][2][0] == "use" and not uses[0][0][1][1]:
                l2 = uses[0][0][1][0]
                uses = [(s, o) for bb in view.blocks if not bb["cleanup"] for s in bb["stmts"] if s[0] == "a"
                        for o in _operands(s[2]) if o[0] in ("c", "m") and o[1][0] == l2]
                uses += [(None, o) for bb in view.blocks if not bb["cleanup"] and bb["term"]["k"] == "call"
                         for o in bb["term"]["args"] if o[0] in ("c", "m") and o[1][0] == l2]
            if len(uses) != 1 or uses[0][0] is None:
                continue
            s = uses[0][0]
            if s[2][0] != "cast" or s[2][1] != "IntToInt" or s[1][1]:
                continue
            src_op = s[2][2]
            sty = _ty(view, rv[2]) or _ty(view, rv[3])
            dty = view.locals[s[1][0]]
            if sty not in W or dty not in W or W[dty] <= W[sty]:
                continue
            ops = [rv[2], rv[3]]
            if all(o[0] == "k" for o in ops) or any(_small(view, o) for o in ops):
                verdict, how = "ok", "auto: an operand is visibly range-limited (narrower cast / mask / shift): the %s cannot overflow" % op
            else:
                verdict = "violation"
                how = ("`%s` computes `%s` in `%s` and widens the result to `%s` afterwards (%s): when the operand is at the "
                       "type's maximum the operation traps (overflow checks) or wraps (release) before the wide type can hold "
                       "it — widen the operands first" % (b.get("name"), op.replace("WithOverflow", ""), sty, dty, span))
            report.add(Instance("%s|%s|%s" % (prefix, norm_id(b["id"]), op.replace("WithOverflow", "")), prefix, verdict, how,
                                span, {"body": b["id"]}), config)


def _ty(view, o):
    if o[0] == "k":
        return None
    l, proj = o[1]
    return view.locals[l] if not proj else None


def _operands(rv):
    k = rv[0]
    if k == "use":
        return [rv[1]]
    if k == "cast":
        return [rv[2]]
    if k == "bin":
        return [rv[2], rv[3]]
    if k == "un":
        return [rv[2]]
    if k == "agg":
        return list(rv[4])
    if k == "repeat":
        return [rv[1]]
    if k in ("ref", "rawptr"):
        return [("c", rv[2])]
    if k in ("cfd", "discr", "len"):
        return [("c", rv[1])]
    return []
