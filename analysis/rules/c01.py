"""C01 (MIR tier) — secret-independent execution of every operation not marked vartime
(DESIGN.md §3 C01).

Leak events: SwitchInt on a labelled operand (abort guards excepted), a labelled array/slice index,
MIR Div/Rem with a labelled operand and non-constant divisor, declassification of a Choice /
ConstChoice / CtOption into bool / Option, a labelled argument handed to a variable-time external,
and — at the boundary — a secret argument handed to a variable-time in-crate callee.
For every public entry point f the computed leak set must be within its declared public set P(f).
"""
import re

from .. import mir, flow
from ..common import Instance, norm_id, load_table
from ..externals import model as ext_model

PUBLIC_PARAM_NAMES = {"exponent_bits", "bits_precision", "at_least_bits_precision", "bit_length", "radix",
                      "limbs_num", "nlimbs", "n_limbs", "precision", "rng", "exponent_bits_bound",
                      # parser / serializer state of external codec crates (not crypto-bigint operands)
                      "reader", "header", "deserializer", "serializer", "encoder", "writer", "rlp", "any"}
PUBLIC_TYPES = ("modular::monty_form::MontyParams", "modular::boxed_monty_form::BoxedMontyParams",
                "alloc::sync::Arc<modular::boxed_monty_form::BoxedMontyParams",
                "modular::safegcd::SafeGcdInverter", "modular::safegcd::boxed::BoxedSafeGcdInverter",
                "modular::monty_form::inv::MontyFormInverter", "modular::boxed_monty_form::inv::BoxedMontyFormInverter",
                "modular::const_monty_form::inv::ConstMontyFormInverter",
                "core::fmt::Formatter", "der::", "rlp::", "serdect::")
PUBLIC_FIELDS = {"params", "modulus_params", "inverter", "adjuster"}
# Declassification = a conversion that itself branches on the secret inside code we do not analyse
# (CtOption -> Option builds the discriminant with an `if` inside `subtle`). Choice -> bool conversions
# (`bool::from`, `.into()`, `is_true_vartime`, `to_bool_vartime`, `to_u8_vartime`) compute `x != 0` without a
# branch: they are not events themselves — the bool keeps its labels and the branch that consumes it is.
DECLASS_SEGS = {"into_option"}
DECLASS_PATHS = {
    "subtle::<impl core::convert::From<subtle::CtOption<T>> for core::option::Option<T>>::from",
}
# external functions whose running time / memory access depends on the listed argument positions
VARTIME_EXTERNALS = {
    "core::num::<impl u64>::div_ceil": (0, 1), "core::num::<impl u32>::div_ceil": (0, 1),
    "core::num::<impl usize>::div_ceil": (0, 1), "core::num::<impl u64>::pow": (0, 1),
    "core::num::<impl u64>::ilog": (0, 1), "core::num::<impl u64>::ilog2": (0,),
    "core::num::<impl u64>::checked_div": (0, 1), "core::num::<impl u64>::checked_rem": (0, 1),
    "core::num::<impl u64>::is_power_of_two": (), "alloc::vec::from_elem": (1,),
    "alloc::vec::Vec<_>::with_capacity": (0,), "alloc::vec::Vec<_>::truncate": (1,),
    "core::slice::<impl [T]>::starts_with": (0, 1), "core::slice::<impl [T]>::ends_with": (0, 1),
    "core::slice::<impl [T]>::strip_prefix": (0, 1), "core::slice::<impl [T]>::contains": (0, 1),
    "core::slice::<impl [T]>::chunks": (1,), "core::slice::<impl [T]>::rchunks": (1,),
    "core::slice::<impl [T]>::chunks_exact_mut": (1,), "core::slice::<impl [T]>::copy_within": (1, 2),
    "core::cmp::impls::<impl core::cmp::PartialEq<&B> for &A>::eq": (0, 1),
    "<core::option::Option<_> as core::cmp::PartialEq>::eq": (0, 1),
    "core::str::<impl str>::parse": (0,),
}
# crates / modules whose functions are constant-time in their arguments unless listed in VARTIME_EXTERNALS
# (the README's own caveat: primitive integer operations are assumed constant-time)
CT_EXTERNAL_PREFIXES = ("core::", "<core::", "alloc::", "<alloc::", "subtle::", "<subtle::", "hybrid_array::",
                        "<hybrid_array::", "zeroize::", "<Z as zeroize::", "rand_core::", "num_traits::",
                        "<T as core::", "<I as core::", "<u8 as", "<u16 as", "<u32 as", "<u64 as", "<u128 as",
                        "<usize as", "<i64 as", "<i32 as", "<i8 as", "<bool as", "<&", "<[", "<(")
# iterator adaptors whose own control flow depends on the items / on the closure's verdict about them
ITER_CONTROL = {"position", "rposition", "any", "all", "find", "find_map", "take_while", "skip_while", "map_while",
                "filter", "filter_map", "max", "min", "max_by", "min_by", "max_by_key", "min_by_key", "try_fold",
                "try_for_each", "eq", "ne", "lt", "le", "gt", "ge", "cmp", "partial_cmp", "is_sorted", "last", "nth",
                "step_by", "dedup", "retain", "binary_search", "contains", "starts_with", "ends_with", "strip_prefix",
                "strip_suffix", "split", "trim_start_matches", "iter_eq"}
FMT_TRAITS = ("core::fmt::Display", "core::fmt::Debug", "core::fmt::LowerHex", "core::fmt::UpperHex",
              "core::fmt::Binary", "core::fmt::Octal")


def is_vartime_name(name):
    return "vartime" in (name or "")


def param_of(label):
    m = re.match(r"@(\d+)", label)
    return int(m.group(1)) if m else None


def label_fields(label):
    return label.split("#")[0].split(".")[1:]


class CtPolicy(flow.Policy):
    propagate_kinds = ("branch", "index", "divrem", "declass", "extleak", "vtcall")

    def __init__(self, facts):
        self.facts = facts
        self.vt_doc = {}

    def filter_event(self, kind, labels, info):
        # lengths / shapes are public by the property's own wording
        return frozenset(l for l in labels if l.startswith("@") and not l.endswith("#len"))

    def external(self, engine, view, bb, term, argvals):
        return ext_model(view, term, argvals)

    def call_hook(self, engine, view, bb, term, argvals, callee_ids):
        name = mir.callee_name(term) or ""
        seg = mir.last_seg(name)
        out = []
        if (seg in DECLASS_SEGS or name in DECLASS_PATHS) and argvals:
            out.append(("declass", flow.v_flat(argvals[0]), {"what": "declassify:" + seg, "span": term["s"],
                                                               "macros": term["m"], "callee": name}))
        n = norm_id(name)
        if not callee_ids and name and not name.startswith(CT_EXTERNAL_PREFIXES) and argvals:
            ls = set()
            for v in argvals:
                ls |= flow.v_flat(v)
            if ls:
                out.append(("extleak", frozenset(ls), {"what": "unknown-external:" + n, "span": term["s"],
                                                        "macros": term["m"]}))
        f0 = term["f"]
        if not callee_ids and argvals and (
                (f0.get("trait") in ("core::iter::Iterator", "core::iter::DoubleEndedIterator") and
                 mir.last_seg(f0["decl"]) in ITER_CONTROL and mir.last_seg(f0["decl"]) not in ("eq", "ne", "lt", "le", "gt", "ge", "cmp", "partial_cmp", "max", "min", "last", "nth", "step_by"))
                or name.startswith(("core::slice::cmp::", "core::array::equality::", "core::slice::<impl [T]>::contains",
                                    "core::slice::<impl [T]>::binary_search"))
                or (f0.get("trait") in ("core::cmp::PartialEq", "core::cmp::PartialOrd", "core::cmp::Ord") and
                    (f0.get("self") or "").lstrip("&").startswith("["))):
            ls = flow.v_flat(argvals[0])
            if len(argvals) > 1 and not name.startswith("core::iter"):
                ls = ls | flow.v_flat(argvals[1])
            if ls:
                out.append(("extleak", frozenset(ls), {"what": "data-dependent-control:" + mir.last_seg(name), "span": term["s"],
                                                        "macros": term["m"]}))
        if n in VARTIME_EXTERNALS and not callee_ids:
            ls = set()
            const_divisor = mir.last_seg(n) in ("div_ceil", "checked_div", "checked_rem", "ilog") and \
                len(term["args"]) > 1 and term["args"][1][0] == "k"
            for i in VARTIME_EXTERNALS[n]:
                if i < len(argvals) and not const_divisor:
                    ls |= flow.v_flat(argvals[i])
            if ls:
                out.append(("extleak", frozenset(ls), {"what": "vartime-external:" + n, "span": term["s"],
                                                        "macros": term["m"]}))
        return out

    def on_call_event(self, callee_id, kind, sink, labels, info, view, bb, term):
        # abort guards never count, wherever they are
        sb = info.get("body")
        if sb is not None and info.get("bb") is not None and getattr(self, "eng", None) is not None and sb in self.eng.by_id:
            sv = self.eng.view(sb)
            if kind == "branch" and (sv.abort_guard(info["bb"]) or result_inherent(sv, info["bb"])):
                return None
            if kind in ("declass", "extleak") and sv.feeds_only_abort_guards(info["bb"], result_inherent):
                return None
        # a non-vartime caller handing a secret to a variable-time callee: anchor at the call site
        cb = self.facts.bodies.get(callee_id)
        caller_vt = is_vartime_name(view.b.get("name")) or is_vartime_name(view.id)
        if cb is not None and is_vartime_name(cb.get("name")) and not caller_vt:
            n = 0
            cname = mir.callee_name(term)
            for bi, t in view.calls():
                if bi == bb:
                    break
                if mir.callee_name(t) == cname:
                    n += 1
            return ("%s|vtcall:%s|%d" % (view.id, norm_id(cname), n),
                    {"what": "vtcall:" + norm_id(cname), "span": term["s"], "macros": term["m"], "body": view.id,
                     "inner": info.get("what"), "inner_span": info.get("span")})
        return sink, info


def public_params(b, view, tab):
    """Indices (1-based) of parameters of f that are public, plus public field names per parameter."""
    names = b.get("names", {})
    pub = set()
    for i in range(1, view.argc + 1):
        nm = names.get(str(i))
        ty = mir.peel_refs(view.locals[i])
        if nm in PUBLIC_PARAM_NAMES:
            pub.add(i)
        elif any(ty.startswith(t) for t in PUBLIC_TYPES):
            pub.add(i)
        elif ty in ("usize",) and nm in ("i", "index", "limb_num"):
            pass
    # "the modulus behind runtime Montgomery parameters" is public: arguments of the parameter constructors
    if re.search(r"Monty(Params|Form)?[A-Za-z<_>:]*::(new|new_vartime|from_const_params|new_params_vartime)\b", b["id"]) and \
            "Params" in b["id"]:
        pub |= set(range(1, view.argc + 1))
    # documented variable-time operands
    doc = (b.get("doc") or "") + "\n" + (b.get("trait_doc") or "")
    if is_vartime_name(b.get("name")) or re.search(r"variable[- ]time", doc, re.I):
        named = documented_vartime_operands(b, names)
        entry = tab.get("vartime_operands", {}).get(norm_id(b["id"]))
        if entry is not None:
            named = set(entry)
        if named is None:
            pub |= set(range(1, view.argc + 1))     # fully variable-time
        else:
            for i in range(1, view.argc + 1):
                if names.get(str(i)) in named:
                    pub.add(i)
    return pub


def documented_vartime_operands(b, names):
    """Parameter names the documentation says the function is variable-time in; None = no operand named.
    A name counts when the nearest preceding timing word is about variable time / leaking
    ("variable time with respect to `shift`", "`exponent_bits` is leaked") and not when it is about constant
    time ("constant-time with respect to `self`")."""
    doc = ((b.get("doc") or "") + " " + (b.get("trait_doc") or "")).replace("\n", " ")
    pnames = set(names.values()) | {"self"}
    found = set()
    for m in re.finditer(r"`([A-Za-z_][A-Za-z0-9_]*)`", doc):
        nm = m.group(1)
        if nm not in pnames:
            continue
        before = doc[max(0, m.start() - 90):m.start()].lower()
        after = doc[m.end():m.end() + 40].lower()
        pos = max(before.rfind("variable"), before.rfind("vartime"), before.rfind("leak"))
        neg = max(before.rfind("constant-time"), before.rfind("constant time"))
        if pos >= 0 and pos > neg:
            found.add(nm)
        elif neg < 0 and re.match(r"\s*(is|are)\s+leaked", after):
            found.add(nm)
    return found if found else None


def is_abort_guard(view, info, bb):
    return view.abort_guard(bb)


PLAIN_FALLIBLE = ("core::result::Result<", "core::option::Option<")


def result_inherent(view, bb):
    """A branch in a function returning a plain Result / Option one of whose outcomes owns an exclusive
    region that builds Err / None or propagates a residual: the outcome is revealed by the returned
    discriminant itself, which every caller must branch on."""
    if not view.locals[0].startswith(PLAIN_FALLIBLE):
        return False
    t = view.blocks[bb]["term"]
    if t["k"] != "switch":
        return False
    succs = list(dict.fromkeys(t["t"]))
    if len(succs) < 2:
        return False
    for x in succs:
        others = set()
        for o in succs:
            if o != x:
                others |= view.reach_set(o)
        excl = view.reach_set(x) - others
        for y in excl:
            blk = view.blocks[y]
            for st in blk["stmts"]:
                if st[0] == "a" and st[2][0] == "agg" and st[2][1] == "adt":
                    if (st[2][2] == "core::result::Result" and st[2][3] == 1) or \
                            (st[2][2] == "core::option::Option" and st[2][3] == 0):
                        return True
            ty = blk["term"]
            if ty["k"] == "call" and mir.last_seg(mir.callee_name(ty)) == "from_residual":
                return True
    return False


DECLASS_ENTRY = ("const_choice::<impl core::convert::From<const_choice::ConstChoice> for bool>::from",
                 "const_choice::<impl core::convert::From<const_choice::ConstCtOption<T>> for core::option::Option<T>>::from",
                 "const_choice::ConstChoice::is_true_vartime", "const_choice::ConstChoice::to_bool_vartime",
                 "const_choice::ConstCtOption::<T>::into_option")


def run(facts, report, config):
    tab = load_table("c01.toml")
    reviewed = {e["key"]: e for e in tab.get("reviewed", [])}
    used = set()
    pol = CtPolicy(facts)
    eng = flow.Engine(facts, pol)
    pol.eng = eng
    events = eng.run_all(collect=True)
    sinks = {}
    abort_guards = 0
    for b in facts.fn_bodies():
        if b["kind"] == "Closure" or not b.get("reach"):
            continue
        bid = b["id"]
        if b.get("impl_trait") in FMT_TRAITS or (b.get("impl_trait") or "").startswith("serdect::") \
                or (b.get("impl_trait") or "").startswith("core::hash"):
            report.count("entry_points_excluded_output_is_operand")
            continue
        if bid in DECLASS_ENTRY:
            report.count("entry_points_excluded_declassification_api")
            continue
        view = eng.view(bid)
        report.count("entry_points")
        vt = is_vartime_name(b.get("name")) or bool(re.search(r"variable[- ]time", (b.get("doc") or "") + (b.get("trait_doc") or ""), re.I))
        if vt:
            report.count("entry_points_documented_vartime")
        pub = public_params(b, view, tab)
        if vt:
            ops = documented_vartime_operands(b, b.get("names", {}))
            report.notes_table.setdefault("vartime_operands", {})[norm_id(bid)] = sorted(ops) if ops else "all (no operand named)"
        for e in events.get(bid, []):
            if e.kind not in pol.propagate_kinds:
                continue
            if e.kind == "branch" and not e.via and is_abort_guard(view, e.info, e.bb[0]):
                abort_guards += 1
                continue
            if e.kind == "branch" and not e.via and result_inherent(view, e.bb[0]):
                report.count("result_inherent_branches_skipped")
                continue
            if e.kind == "divrem" and e.info.get("divisor_const"):
                continue
            if e.kind in ("declass", "extleak") and not e.via and view.feeds_only_abort_guards(e.bb[0], result_inherent):
                abort_guards += 1
                continue
            secret = set()
            for l in e.labels:
                pi = param_of(l)
                if pi is None or pi > view.argc or pi in pub:
                    continue
                fl = label_fields(l)
                if fl and fl[0] in PUBLIC_FIELDS:
                    continue
                secret.add(l)
            if not secret:
                continue
            report.count("leak_event_x_entry_pairs")
            rec = sinks.setdefault(e.sink, {"info": e.info, "kind": e.kind, "entries": {}, "vt_entries": {}})
            (rec["vt_entries"] if vt else rec["entries"])[norm_id(bid)] = {"labels": sorted(secret)[:6], "via": list(e.via)}
    report.counters["abort_guard_branches_skipped"] = abort_guards
    for sink, rec in sorted(sinks.items()):
        sbody, skind, sord = sink.rsplit("|", 2)
        info = rec["info"]
        # abort guards inside callees
        sv = eng.view(sbody) if sbody in eng.by_id else None
        if sv is not None and info.get("bb") is not None and info.get("body") == sbody:
            if rec["kind"] == "branch" and sv.abort_guard(info["bb"]):
                report.count("abort_guard_branches_skipped")
                continue
            if rec["kind"] == "branch" and result_inherent(sv, info["bb"]):
                report.count("result_inherent_branches_skipped")
                continue
            if rec["kind"] in ("declass", "extleak") and sv.feeds_only_abort_guards(info["bb"], result_inherent):
                report.count("abort_guard_branches_skipped")
                continue
        key = "c01.leak|%s|%s|%s" % (norm_id(sbody), skind, sord)
        ents = rec["entries"]
        vents = rec["vt_entries"]
        site = info.get("span")
        detail = {"site_body": sbody, "what": info.get("what"), "kind": rec["kind"],
                  "inner": info.get("inner"), "inner_span": info.get("inner_span"),
                  "n_entry_points": len(ents), "n_vartime_entry_points": len(vents),
                  "entry_points": dict(list(ents.items())[:8]), "vartime_entry_points": dict(list(vents.items())[:4])}
        if not ents and not vents:
            continue
        what = info.get("what")
        if ents:
            ex = sorted(ents)[0]
            why = ("%s on a secret-dependent value in `%s`, reachable from %d non-vartime public operation(s), e.g. "
                   "`%s` via its operand(s) %s" % (what, sbody, len(ents), ex, ents[ex]["labels"][:3]))
        else:
            ex = sorted(vents)[0]
            why = ("%s in `%s` depends on operand(s) %s of the documented-variable-time operation `%s` that its "
                   "documentation does not name" % (what, sbody, vents[ex]["labels"][:3], ex))
        e = reviewed.get(key)
        if e is not None:
            used.add(key)
            report.add(Instance(key, "c01.leak", "reviewed", "reviewed: " + e["reason"], site, detail), config)
            continue
        report.add(Instance(key, "c01.leak", "violation", why, site, detail), config)
    for k in reviewed:
        if k not in used:
            report.stale.append({"table": "c01.toml", "key": k, "config": config})
    return eng
