"""Size requirement of a primitive conversion asserted in debug builds only (`dbgsize`; C13 and C16).

`impl From<i128> for Int<LIMBS>` starts with `debug_assert!(LIMBS >= 16 / Limb::BYTES, "not enough limbs")` and hands the
value to `Int::from_i128`.  The unsigned twin does the same — but `Uint::from_u128` repeats the requirement with a real
`assert!`, so the belief is enforced in every profile.  Rule: for every `From<primitive>` impl of `Int` / `Uint` that
states a requirement on the type's width (an abort guard raised from `debug_assert*!` whose condition is computed from
constants and const generics only), the function itself or a function it calls directly must contain a release-mode
abort guard whose condition is likewise constant-only.  Otherwise the optimized build converts into a type that cannot
hold the value and silently truncates (`I64::from(i128::MAX)` is `-1` in release, a panic in debug)."""
import re

from .. import mir
from ..common import Instance, norm_id
from .c06 import guard_is_debug
from .subcmp import _ops_of_rv, _locals_of

SCOPE = re.compile(r"<impl core::convert::From<[iu](8|16|32|64|128|size)> for (int::Int|uint::Uint)<")


def _const_only(view, op):
    seen, work = set(), list(_locals_of(op))
    while work:
        l = work.pop()
        if l in seen:
            continue
        seen.add(l)
        if 1 <= l <= view.argc:
            return False
        defs = view.defs.get(l, [])
        if not defs:
            return False
        for d in defs:
            if d.get("term") is not None or d["kind"] == "mutborrow":
                return False
            rv = d.get("rv")
            ops = _ops_of_rv(rv) if rv else None
            if ops is None:
                return False
            for o in ops:
                work += _locals_of(o)
    return True


def _guards(view):
    """(debug, release) counts of abort guards with a constant-only condition"""
    dbg = rel = 0
    for bi in view.live_blocks():
        t = view.blocks[bi]["term"]
        if t["k"] != "switch" or t["op"][0] == "k" or not view.abort_guard(bi):
            continue
        if not _const_only(view, t["op"]):
            continue
        macs = t.get("m") or []
        if any("debug_assert" in m for m in macs) or guard_is_debug(view, bi):
            dbg += 1
        else:
            rel += 1
    return dbg, rel


def _release_guards_below(facts, view, depth, seen):
    """release-mode constant-only abort guards in the in-crate functions called from `view` (resolved callees, up to three
    calls deep: the constructor may itself delegate to a shared helper)"""
    if depth >= 3:
        return 0
    n = 0
    for bi, t in view.calls():
        if view.blocks[bi]["cleanup"]:
            continue
        res = t["f"].get("res")
        cb = facts.bodies.get(res) if res else None
        if cb is None or res in seen:
            continue
        if "/#" not in (t["f"].get("rargs") or t["f"].get("gargs") or ""):
            continue        # instantiated at a fixed width: its guards say nothing about the caller's width parameter
        seen.add(res)
        cv = mir.BodyView(cb)
        n += _guards(cv)[1] + _release_guards_below(facts, cv, depth + 1, seen)
    return n


def run(facts, report, config, prefix="c16.dbgsize", counter="primitive_conversions"):
    for b in facts.fn_bodies():
        if b["kind"] == "Closure" or not SCOPE.search(b["id"]) or b.get("name") != "from":
            continue
        view = mir.BodyView(b)
        report.count(counter)
        dbg, rel = _guards(view)
        callee_rel = _release_guards_below(facts, view, 0, {b["id"]})
        key = "%s|%s" % (prefix, norm_id(b["id"]))
        if dbg and not rel and not callee_rel:
            report.add(Instance(key, prefix, "violation",
                                "`%s` states a requirement on the target width in a debug assertion only, and neither it nor the "
                                "constructor it calls repeats it in release builds: converting into a type too small for the "
                                "primitive silently truncates in the optimized build (the unsigned / narrower twins assert)" %
                                norm_id(b["id"]), b["span"], {"body": b["id"]}), config)
        else:
            report.add(Instance(key, prefix, "ok" if dbg else "info",
                                "auto: the width requirement is enforced in release builds (%d own, %d in the constructor called)" %
                                (rel, callee_rel) if dbg else "no width requirement stated", b["span"], {"body": b["id"]}), config)
