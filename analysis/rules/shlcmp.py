"""An ordering decided on a left-shifted word (`c17.shlcmp`).

`(x << s) < y` asks whether `x * 2^s < y`, but `<<` on a machine word (or on `Limb`) silently drops the bits shifted out
of the top: when `x >= 2^(BITS - s)` the truncated value can pass the test although the mathematical one fails.  The rule
reports every left shift of a NON-CONSTANT value whose result is consumed by nothing but an ordering comparison (`<`, `<=`,
`>`, `>=` as MIR operators or as `PartialOrd` calls on the temporary).  `1 << k` (a constant shifted) is a power of two by
construction and is not judged, nor is a value that was first widened from a narrower type (the repaired form).  The radix encoder's `limbs[top] << lshift < div_limb` is the one site on the tree: the top
quotient limb can exceed `2^(64 - lshift)`, the comparison then folds a limb that is not smaller than the divisor into the
carry, and `to_string_radix_vartime` loses or corrupts leading digits (radix 7, 17, 21, 25, 27, 31, 33, 35 from 14 limbs)."""
from .. import mir
from ..common import Instance, norm_id
from .widenlate import _small

ORD_OPS = {"Lt", "Le", "Gt", "Ge"}
ORD_CALLS = {"lt", "le", "gt", "ge", "partial_cmp", "cmp", "ct_lt", "ct_gt"}


def _uses(view, l):
    """(kind, detail) of every read of local l; references are followed one step"""
    out = []
    for bi, bb in enumerate(view.blocks):
        if bb["cleanup"]:
            continue
        for s in bb["stmts"]:
            if s[0] != "a":
                continue
            rv = s[2]
            k = rv[0]
            ops = []
            if k == "bin":
                ops = [rv[2], rv[3]]
            elif k in ("use",):
                ops = [rv[1]]
            elif k == "cast":
                ops = [rv[2]]
            elif k == "un":
                ops = [rv[2]]
            elif k == "agg":
                ops = list(rv[4])
            elif k in ("ref", "rawptr"):
                ops = [("c", rv[2])]
            for o in ops:
                if o[0] in ("c", "m") and o[1][0] == l:
                    if k == "bin":
                        out.append(("bin", rv[1]))
                    elif k in ("ref", "use") and not s[1][1]:
                        out += [("via", u) for u in _uses(view, s[1][0])] or [("dead", None)]
                    else:
                        out.append((k, None))
        t = bb["term"]
        if t["k"] == "call":
            for o in t["args"]:
                if o[0] in ("c", "m") and o[1][0] == l:
                    out.append(("call", mir.last_seg(mir.callee_decl(t)) or ""))
        elif t["k"] == "switch" and t["op"][0] in ("c", "m") and t["op"][1][0] == l:
            out.append(("switch", None))
    return out


def _flat(uses):
    for k, d in uses:
        if k == "via":
            yield from _flat([d])
        else:
            yield (k, d)


def run(facts, report, config, prefix="c17.shlcmp"):
    for b in facts.fn_bodies():
        if b.get("derived"):
            continue
        view = mir.BodyView(b)
        sites = []
        for bi, bb in enumerate(view.blocks):
            if bb["cleanup"]:
                continue
            for s in bb["stmts"]:
                if s[0] == "a" and not s[1][1] and s[2][0] == "bin" and s[2][1].startswith("Shl") and s[2][2][0] != "k":
                    if _small(view, s[2][2]):
                        report.count("left_shifts_of_values")
                        continue        # a value widened from a narrower type first: the shift has room
                    sites.append((s[1][0], s[3]))
            t = bb["term"]
            if t["k"] == "call" and (mir.last_seg(mir.callee_decl(t)) or "") == "shl" and not t["dst"][1] and t["args"] \
                    and t["args"][0][0] != "k":
                ty = mir.peel_refs(view.locals[t["dst"][0]])
                if ty in ("limb::Limb", "u64", "u32", "u128", "usize"):
                    sites.append((t["dst"][0], t["s"]))
        n = 0
        for l, span in sites:
            report.count("left_shifts_of_values")
            uses = list(_flat(_uses(view, l)))
            if not uses:
                continue
            ordered = [u for u in uses if (u[0] == "bin" and u[1] in ORD_OPS) or (u[0] == "call" and u[1] in ORD_CALLS)]
            if ordered and len(ordered) == len(uses):
                key = "%s|%s|%d" % (prefix, norm_id(b["id"]), n)
                n += 1
                report.add(Instance(key, prefix, "violation",
                                    "`%s` decides an ordering on a left-shifted value (%s) and uses the shifted value for nothing "
                                    "else: the bits shifted out of the top are lost, so for operands >= 2^(BITS - shift) the "
                                    "comparison answers for a different number — compare in a wider type or compare the unshifted "
                                    "operands" % (b.get("name"), span), span, {"body": b["id"]}), config)
        if sites and n == 0:
            report.add(Instance("%s|%s" % (prefix, norm_id(b["id"])), prefix, "ok",
                                "auto: %d left shift(s) of non-constant, non-widened words; none is consumed by an ordering "
                                "comparison alone" % len(sites), b["span"], {"body": b["id"]}), config)
