"""Gate dependence (clauses of C10, C13, C04): the success flag (`is_some`) of a fallible arithmetic operation
must depend on the operands that decide whether the mathematical result exists / fits.

For every operation returning CtOption / ConstCtOption whose name belongs to one of the families below, the
`is_some` component of its label-flow summary (CtOption::new modelled field-wise; constants chosen under a
branch inherit the branch's labels) must mention each *needed* parameter:

  checked add / sub / mul / square / neg : every operand   (for a fixed non-trivial operand both outcomes occur)
  checked div / rem                      : the divisor (signed / signed division: also the dividend — MIN / -1)
  inversion (inv, inv_mod, inv_odd_mod, inv_mod2k, invert): every operand (value and modulus / inverter)
  overflowing shl / shr                  : the shift amount

A flag that is constant, or computed from one operand only, is wrong for some input whatever the arithmetic is.
The rule does not decide that the flag is *right* (polarity, the exact boundary): that is arithmetic.
"""
from .. import mir, flow
from ..common import Instance, norm_id
from . import c11, c15

FALLIBLE = ("subtle::CtOption<", "const_choice::ConstCtOption<")
ALL = "all"
NEED = {"add": ALL, "sub": ALL, "mul": ALL, "square": ALL, "neg": ALL, "div": (2,), "rem": (2,), "div_rem": (2,),
        "inv": ALL, "inv_mod": ALL, "inv_odd_mod": ALL, "inv_mod2k": ALL, "shl": (2,), "shr": (2,)}
NAME_OK = ("checked_", "overflowing_sh", "inv", "invert")


class GatePolicy(flow.Policy):
    implicit_flows = True

    def external(self, engine, view, bb, term, argvals):
        # subtle's CtOption combinators with an in-crate closure: keep `is_some` and the payload apart
        #   and_then(o, f): is_some = o.is_some & f(o.value).is_some, value = f(o.value).value
        #   map(o, f):      is_some = o.is_some,                      value = f(o.value)
        n = norm_id(mir.callee_name(term) or "")
        if n in ("subtle::CtOption<_>::and_then", "subtle::CtOption<_>::map") and len(argvals) == 2:
            opt, clo = argvals
            cids = [l.split(":", 1)[1] for l in clo.t.get((), flow.EMPTY) if l.startswith("closure:")]
            if len(cids) == 1 and engine.summaries.get(cids[0]) is not None and engine.by_id[cids[0]]["argc"] == 2:
                payload = flow.v_sub(opt, ("value",))
                r, _ = engine.apply_summary(engine.summaries[cids[0]], [clo, payload])
                gate = set(flow.v_read(opt, ("is_some",)))
                if n.endswith("and_then"):
                    gate |= set(flow.v_read(r, ("is_some",)))
                    value = flow.v_sub(r, ("value",))
                else:
                    value = r
                out = flow.v_write(flow.Val(), ("value",), value, strong=False)
                out = flow.v_write(out, ("is_some",), flow.scalar(frozenset(x for x in gate if not x.startswith("closure:"))),
                                   strong=False)
                engine.closures_handled = True
                return out, {}, ()
        return c11.PanicPolicy.external(self, engine, view, bb, term, argvals)

    def post_call(self, engine, view, bb, term, ret, argvals):
        # `ConstCtOption::none(v)` / `some(v)` chosen under a branch: the flag is a constant whose choice depends on
        # the branch condition, the payload is not constant, so the engine's whole-value rule does not apply
        ctrl = getattr(engine, "current_ctrl", None)
        if ctrl is not None and not term["dst"][1] and view.locals[term["dst"][0]].startswith(FALLIBLE):
            if not any(l[0] == "@" for l in flow.v_read(ret, ("is_some",))):
                ret = flow.v_write(ret, ("is_some",), flow.scalar(flow.v_flat(ctrl)), strong=False)
        return ret


def engine(facts):
    eng = flow.Engine(facts, GatePolicy())
    eng.run_all(collect=False)
    return eng


def run(facts, report, config, select, prefix, counter, eng=None):
    """select(body, family) -> bool chooses the operations judged by the calling property."""
    eng = eng or engine(facts)
    judged = {}
    for b in facts.fn_bodies():
        if b["kind"] == "Closure" or not (b.get("sig_out") or "").startswith(FALLIBLE) or not b.get("reach"):
            continue
        name = b.get("name") or ""
        if not name.startswith(NAME_OK):
            continue
        fam = c15.family(name)
        need = NEED.get(fam)
        if need is None:
            continue
        summ = eng.summaries.get(b["id"])
        gate = flow.v_read(summ.ret, ("is_some",)) if summ else frozenset()
        if summ and not any(pth and pth[0] in ("is_some", "value") and ls for pth, ls in summ.ret.t.items()):
            # the summary does not keep the flag apart (e.g. the option went through a generically dispatched select):
            # fall back to everything the returned option depends on
            gate = flow.v_flat(summ.ret)
        have = set()
        for l in gate:
            if l.startswith("@"):
                have.add(int(l[1:].split(".")[0].split("#")[0]))
        want = set(range(1, b["argc"] + 1)) if need == ALL else {p for p in need if p <= b["argc"]}
        view = eng.view(b["id"])
        if fam == "div" and b["argc"] >= 2 and mir.adt_of_ty(view.locals[1]) == "int::Int" and \
                mir.adt_of_ty(view.locals[2]) == "int::Int":
            want = {1, 2}       # signed / signed: MIN / -1 does not fit, so the dividend decides too
        # a wrapper-invariant parameter (NonZero / Odd divisor) cannot make the operation fail
        view = eng.view(b["id"])
        want = {p for p in want if fam in ("shl", "shr", "inv_mod2k") or
                (mir.adt_of_ty(view.locals[p]) not in ("non_zero::NonZero", "odd::Odd")
                 and view.locals[p] not in ("u32", "usize"))}
        judged[b["id"]] = (b, fam, have, want, sorted(want - have))
    for bid, (b, fam, have, want, miss) in sorted(judged.items()):
        if not select(b, fam):
            continue
        name = b.get("name")
        report.count(counter)
        key = "%s|%s" % (prefix, norm_id(bid))
        detail = {"body": bid, "family": fam, "gate_depends_on": sorted(have), "needed": sorted(want)}
        if not miss:
            report.add(Instance(key, prefix, "ok", "auto: `is_some` depends on operand(s) %s" % sorted(want), b["span"],
                                detail), config)
            continue
        # report the root cause once: a wrapper whose fallible callee already lacks the dependence inherits it
        view = eng.view(bid)
        inherited = None
        for bi, t in view.calls():
            if view.blocks[bi]["cleanup"]:
                continue
            for c in eng.callee_ids(t):
                if c != bid and c in judged and judged[c][4]:
                    inherited = c
        if inherited:
            report.add(Instance(key, prefix, "info", "inherits a success flag that lacks a dependence from `%s`, which is "
                                "reported on its own" % inherited, b["span"], detail), config)
            continue
        names = b.get("names") or {}
        report.add(Instance(key, prefix, "violation",
                            "the success flag returned by `%s` does not depend on operand(s) %s: it reports the same "
                            "outcome whatever %s, although whether the result exists depends on it" % (
                                name, ["_%d (%s)" % (p, names.get(str(p), "?")) for p in miss],
                                "that operand is" if len(miss) == 1 else "those operands are"),
                            b["span"], detail), config)
