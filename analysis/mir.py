"""MIR utilities over the JSON facts of E1: CFG, dominators, def sites, value provenance.

Everything here is intraprocedural and purely structural.
"""
import re

# ---------------------------------------------------------------------------------------------
# basic accessors


def callee_name(term):
    """Resolved callee def-path of a call terminator (falls back to the declared path)."""
    f = term["f"]
    if "indirect" in f:
        return None
    return f.get("res") or f["decl"]


def callee_decl(term):
    f = term["f"]
    if "indirect" in f:
        return None
    return f["decl"]


def last_seg(path):
    """Last path segment of a def path, generic arguments removed."""
    if path is None:
        return None
    # strip trailing generic args like ::<T>
    p = path
    # cut at the last '::' that is not inside <...>
    depth = 0
    cut = -1
    i = 0
    while i < len(p):
        c = p[i]
        if c == "<":
            depth += 1
        elif c == ">":
            depth -= 1
        elif c == ":" and depth == 0 and i + 1 < len(p) and p[i + 1] == ":":
            cut = i
            i += 1
        i += 1
    seg = p[cut + 2:] if cut >= 0 else p
    seg = re.sub(r"<.*$", "", seg)
    return seg


_GEN_RE = re.compile(r"<[^<>]*>")


def erase_generics(s):
    """Replace every generic argument list by <_> (used for stable keys)."""
    if s is None:
        return None
    prev = None
    out = s
    # protect '<impl ... for ...>' and '<T as Trait>' wrappers: only erase args that follow an identifier
    pat = re.compile(r"([A-Za-z0-9_])<([^<>]*)>")
    while prev != out:
        prev = out
        out = pat.sub(lambda m: m.group(1) + "⟨_⟩", out)
    return out.replace("⟨", "<").replace("⟩", ">").replace("::<_>", "<_>")


def is_ptr_ty(ty):
    return (ty.startswith("&") or ty.startswith("*const ") or ty.startswith("*mut ")
            or ty.startswith("alloc::boxed::Box<") or ty.startswith("core::ptr::non_null::NonNull<")
            or ty.startswith("core::ptr::unique::Unique<"))


def is_owning_ptr_ty(ty):
    return ty.startswith(("alloc::boxed::Box<", "*mut ", "&mut ", "alloc::vec::Vec<",
                          "core::ptr::non_null::NonNull<", "core::ptr::unique::Unique<"))


def peel_refs(ty):
    t = ty
    while True:
        if t.startswith("&mut "):
            t = t[5:]
        elif t.startswith("&'"):
            # &'a T / &'a mut T
            t = t.split(" ", 1)[1] if " " in t else t[1:]
            if t.startswith("mut "):
                t = t[4:]
        elif t.startswith("&"):
            t = t[1:]
        else:
            return t


def adt_of_ty(ty):
    """Def path of the outermost ADT of a (possibly reference) type string, generics stripped."""
    t = peel_refs(ty)
    m = re.match(r"^([A-Za-z_][A-Za-z0-9_:]*)", t)
    if not m:
        return None
    return m.group(1).rstrip(":")


def field_path(proj):
    """Field names of a projection list, derefs/indices/downcasts dropped."""
    return tuple(e[2] for e in proj if e != "*" and e[0] == "f")


def has_deref(proj):
    return any(e == "*" for e in proj)


def index_locals(proj):
    return [e[1] for e in proj if e != "*" and e[0] == "i"]


# ---------------------------------------------------------------------------------------------


class BodyView:
    """Indexed view of one MIR body."""

    def __init__(self, b):
        self.b = b
        self.id = b["id"]
        self.blocks = b["blocks"]
        self.n = len(self.blocks)
        self.argc = b["argc"]
        self.locals = b["locals"]
        self._succ = None
        self._pred = None
        self._idom = None
        self._defs = None
        self._reach = None

    # ---- CFG -------------------------------------------------------------------------------
    def succs(self, i, with_unwind=False):
        t = self.blocks[i]["term"]
        k = t["k"]
        out = []
        if k == "goto":
            out = [t["t"]]
        elif k == "switch":
            out = list(t["t"])
        elif k == "call":
            if t["t"] is not None:
                out = [t["t"]]
            if with_unwind and t.get("u") is not None:
                out.append(t["u"])
        elif k in ("assert", "drop"):
            out = [t["t"]]
        return out

    @property
    def succ(self):
        if self._succ is None:
            self._succ = [self.succs(i) for i in range(self.n)]
        return self._succ

    @property
    def pred(self):
        if self._pred is None:
            p = [[] for _ in range(self.n)]
            for i, ss in enumerate(self.succ):
                for s in ss:
                    p[s].append(i)
            self._pred = p
        return self._pred

    def reachable(self):
        if self._reach is None:
            seen = {0}
            st = [0]
            while st:
                x = st.pop()
                for s in self.succ[x]:
                    if s not in seen:
                        seen.add(s)
                        st.append(s)
            self._reach = seen
        return self._reach

    def rpo(self):
        seen = set()
        order = []
        st = [(0, iter(self.succ[0]))]
        seen.add(0)
        while st:
            x, it = st[-1]
            adv = False
            for s in it:
                if s not in seen:
                    seen.add(s)
                    st.append((s, iter(self.succ[s])))
                    adv = True
                    break
            if not adv:
                order.append(x)
                st.pop()
        order.reverse()
        return order

    @property
    def idom(self):
        """Immediate dominators (Cooper-Harvey-Kennedy) over the non-unwind CFG."""
        if self._idom is None:
            order = self.rpo()
            pos = {b: i for i, b in enumerate(order)}
            idom = {0: 0}
            changed = True
            while changed:
                changed = False
                for b in order[1:]:
                    new = None
                    for p in self.pred[b]:
                        if p in idom:
                            if new is None:
                                new = p
                            else:
                                a, c = p, new
                                while a != c:
                                    while pos[a] > pos[c]:
                                        a = idom[a]
                                    while pos[c] > pos[a]:
                                        c = idom[c]
                                new = a
                    if new is not None and idom.get(b) != new:
                        idom[b] = new
                        changed = True
            self._idom = idom
        return self._idom

    def dominates(self, a, b):
        idom = self.idom
        if b not in idom:
            return False
        x = b
        while True:
            if x == a:
                return True
            if x == 0:
                return a == 0
            x = idom[x]

    def dominators(self, b):
        """Blocks dominating b, nearest first (including b)."""
        idom = self.idom
        out = []
        if b not in idom:
            return out
        x = b
        while True:
            out.append(x)
            if x == 0:
                break
            x = idom[x]
        return out

    def can_reach(self, src, dst, avoid=None):
        """Is dst reachable from src (normal edges) without passing through block `avoid`?"""
        if src == avoid:
            return False
        seen = {src}
        st = [src]
        while st:
            x = st.pop()
            if x == dst:
                return True
            for s in self.succ[x]:
                if s not in seen and s != avoid:
                    seen.add(s)
                    st.append(s)
        return False

    def reach_set(self, src):
        seen = {src}
        st = [src]
        while st:
            x = st.pop()
            for s in self.succ[x]:
                if s not in seen:
                    seen.add(s)
                    st.append(s)
        return seen

    def controlling_switches(self, bb):
        """Switch blocks S such that bb is reachable from S but not from every successor of S
        (S decides, on at least one path, whether bb executes)."""
        if not hasattr(self, "_ctrl"):
            self._ctrl = {}
            self._reach_cache = {}
        if bb in self._ctrl:
            return self._ctrl[bb]
        out = []
        for i in self.live_blocks():
            t = self.blocks[i]["term"]
            if t["k"] != "switch":
                continue
            succs = set(t["t"])
            if len(succs) < 2:
                continue
            reach = []
            for sx in succs:
                r = self._reach_cache.get(sx)
                if r is None:
                    r = self.reach_set(sx)
                    self._reach_cache[sx] = r
                reach.append(bb in r)
            if any(reach) and not all(reach):
                out.append(i)
        self._ctrl[bb] = out
        return out

    _PURE_RET = ("bool", "subtle::Choice", "const_choice::ConstChoice", "()", "!", "core::fmt::Arguments<'_>",
                 "core::cmp::Ordering", "core::option::Option<core::cmp::Ordering>")

    def abort_guard(self, bb):
        """Is the SwitchInt ending block bb an abort guard: one of its outcomes owns an exclusive region
        that only evaluates further conditions and then diverges in a panic (assert!/debug_assert!/
        expect-style checks, including the short-circuit branches inside their conditions)?"""
        if not hasattr(self, "_ag"):
            self._ag = {}
        if bb in self._ag:
            return self._ag[bb]
        res = False
        t = self.blocks[bb]["term"]
        if t["k"] == "switch":
            succs = list(dict.fromkeys(t["t"]))
            # reachability that does not pass through the switch block again: inside a loop the aborting side
            # would otherwise be reachable from the continuing side through the next iteration
            reach = {x: self._reach_avoiding(x, bb) for x in succs}
            for x in succs:
                others = set()
                for o in succs:
                    if o != x:
                        others |= reach[o]
                excl = reach[x] - others
                # an outcome whose exclusive region returns from the function is ordinary control flow
                # (a loop exit, an early return), not an abort path
                if any(self.blocks[y]["term"]["k"] == "ret" for y in excl):
                    continue
                if not excl:
                    continue
                has_panic = False
                pure = True
                for y in excl:
                    ty = self.blocks[y]["term"]
                    if ty["k"] == "call":
                        name = callee_name(ty) or ""
                        if ty["t"] is None or name.startswith("core::panicking::"):
                            has_panic = True
                            continue
                        rty = self.locals[ty["dst"][0]] if not ty["dst"][1] else "?"
                        if rty not in self._PURE_RET and not name.startswith("core::fmt::"):
                            pure = False
                    elif ty["k"] == "unreach":
                        continue
                    for st in self.blocks[y]["stmts"]:
                        if st[0] == "a" and has_deref(st[1][1]):
                            pure = False
                if has_panic and pure:
                    res = True
                    break
        self._ag[bb] = res
        return res

    def _reach_avoiding(self, start, avoid):
        if start == avoid:
            return set()
        seen = {start}
        work = [start]
        while work:
            x = work.pop()
            for y in self.succ[x]:
                if y != avoid and y not in seen:
                    seen.add(y)
                    work.append(y)
        return seen

    def feeds_only_abort_guards(self, bb, also=None):
        """Does the value produced by the call ending block bb flow (through copies, negations,
        comparisons and truth-value conversions) only into abort-guard switches?"""
        t = self.blocks[bb]["term"]
        if t["k"] != "call" or t["dst"][1]:
            return False
        derived = {t["dst"][0]}
        allowed_calls = {"not", "is_true_vartime", "to_bool_vartime", "from", "into", "unwrap_u8", "eq", "ne"}
        used_in_guard = False
        changed = True
        while changed:
            changed = False
            for bi, blk in enumerate(self.blocks):
                if blk["cleanup"]:
                    continue
                for s in blk["stmts"]:
                    if s[0] != "a":
                        continue
                    rv = s[2]
                    ops = []
                    if rv[0] in ("use", "repeat"):
                        ops = [rv[1]]
                    elif rv[0] == "cast":
                        ops = [rv[2]]
                    elif rv[0] == "bin":
                        ops = [rv[2], rv[3]]
                    elif rv[0] == "un":
                        ops = [rv[2]]
                    elif rv[0] == "agg":
                        ops = list(rv[4])
                    srcs = {o[1][0] for o in ops if o[0] in ("c", "m")}
                    if rv[0] in ("ref", "rawptr"):
                        srcs.add(rv[2][0])
                    elif rv[0] in ("cfd", "discr"):
                        srcs.add(rv[1][0])
                    if srcs & derived:
                        if rv[0] == "agg" or s[1][1] or s[1][0] == 0:
                            return False
                        if s[1][0] not in derived:
                            derived.add(s[1][0])
                            changed = True
                tt = blk["term"]
                if tt["k"] == "call" and bi != bb:
                    if any(a[0] in ("c", "m") and a[1][0] in derived for a in tt["args"]):
                        seg = last_seg(callee_decl(tt))
                        name = callee_name(tt) or ""
                        if name.startswith("core::panicking::") or name.startswith("core::fmt::"):
                            continue
                        if seg in allowed_calls and not tt["dst"][1]:
                            if tt["dst"][0] not in derived:
                                derived.add(tt["dst"][0])
                                changed = True
                        else:
                            return False
        for bi, blk in enumerate(self.blocks):
            if blk["cleanup"]:
                continue
            tt = blk["term"]
            if tt["k"] == "switch" and tt["op"][0] in ("c", "m") and tt["op"][1][0] in derived:
                if not self.abort_guard(bi) and not (also is not None and also(self, bi)):
                    return False
                used_in_guard = True
            if tt["k"] == "ret" and 0 in derived:
                return False
        return used_in_guard

    def value_controlling_switches(self, bb):
        """Controlling switches with at least two non-diverging successors: only those make a value
        computed in bb vary with the branch condition (an abort guard does not: if execution continues,
        its condition had the one admissible value)."""
        out = []
        for sblk in self.controlling_switches(bb):
            succs = set(self.blocks[sblk]["term"]["t"])
            if sum(1 for x in succs if not self.diverges(x)) >= 2:
                out.append(sblk)
        return out

    def immediate_controlling_switches(self, bb):
        """Controlling switches of bb from which bb can be reached without passing through another
        controlling switch of bb: the conditions that directly decide that bb executes."""
        ctrl = self.controlling_switches(bb)
        if len(ctrl) <= 1:
            return list(ctrl)
        cs = set(ctrl)
        out = []
        for sblk in ctrl:
            seen = set()
            st = [x for x in self.succ[sblk]]
            found = False
            while st and not found:
                x = st.pop()
                if x in seen:
                    continue
                seen.add(x)
                if x == bb:
                    found = True
                    break
                if x in cs and x != sblk:
                    continue
                st.extend(self.succ[x])
            if found:
                out.append(sblk)
        return out

    def diverges(self, bb):
        """True if no `ret` terminator is reachable from bb (only panics/unreachable/loops)."""
        for x in self.reach_set(bb):
            if self.blocks[x]["term"]["k"] == "ret":
                return False
        return True

    # ---- definitions -----------------------------------------------------------------------
    @property
    def defs(self):
        """local -> list of def sites. A def site is a dict:
        {kind: 'assign'|'call'|'mutborrow'|'partial', bb, idx, rv (for assign), term (for call), proj}"""
        if self._defs is None:
            d = {}

            def add(l, site):
                d.setdefault(l, []).append(site)

            for bi, bb in enumerate(self.blocks):
                for si, s in enumerate(bb["stmts"]):
                    if s[0] == "a":
                        place, rv = s[1], s[2]
                        if not place[1]:
                            add(place[0], {"kind": "assign", "bb": bi, "idx": si, "rv": rv, "span": s[3]})
                        else:
                            add(place[0], {"kind": "partial", "bb": bi, "idx": si, "rv": rv,
                                           "proj": place[1], "span": s[3]})
                        if rv[0] == "ref" and rv[1] == "mut":
                            add(rv[2][0], {"kind": "mutborrow", "bb": bi, "idx": si, "proj": rv[2][1],
                                           "span": s[3]})
                        if rv[0] == "rawptr" and "Mut" in rv[1]:
                            add(rv[2][0], {"kind": "mutborrow", "bb": bi, "idx": si, "proj": rv[2][1],
                                           "span": s[3]})
                    elif s[0] == "sd":
                        add(s[1][0], {"kind": "partial", "bb": bi, "idx": si, "rv": None, "proj": s[1][1],
                                      "span": s[3]})
                t = bb["term"]
                if t["k"] == "call":
                    dst = t["dst"]
                    if not dst[1]:
                        add(dst[0], {"kind": "call", "bb": bi, "idx": "term", "term": t, "span": t["s"]})
                    else:
                        add(dst[0], {"kind": "partial", "bb": bi, "idx": "term", "rv": None,
                                     "proj": dst[1], "term": t, "span": t["s"]})
            # writes through an owning pointer (Box / raw / &mut) that was copied out of a local:
            # MIR elaborates `x.limbs[i] = v` on a Box<[Limb]> field into a copy of the Box followed by a
            # store through the copied pointer; attribute such stores to the owner local.
            owners = {}   # derived pointer local -> set of owner locals
            for bi, bb in enumerate(self.blocks):
                for si, s in enumerate(bb["stmts"]):
                    if s[0] != "a" or s[1][1]:
                        continue
                    rv = s[2]
                    src = None
                    if rv[0] == "use" and rv[1][0] in ("c", "m"):
                        src = rv[1][1]
                    elif rv[0] == "cfd":
                        src = rv[1]
                    if src is not None and src[1] and is_owning_ptr_ty(self.locals[s[1][0]]):
                        owners.setdefault(s[1][0], set()).add(src[0])
            if owners:
                changed = True
                while changed:
                    changed = False
                    for bb in self.blocks:
                        for s in bb["stmts"]:
                            if s[0] != "a" or s[1][1]:
                                continue
                            rv = s[2]
                            src = None
                            if rv[0] == "use" and rv[1][0] in ("c", "m"):
                                src = rv[1][1]
                            elif rv[0] == "cast" and rv[2][0] in ("c", "m"):
                                src = rv[2][1]
                            elif rv[0] == "cfd":
                                src = rv[1]
                            elif rv[0] == "rawptr":
                                src = rv[2]
                            if src is not None and src[0] in owners and is_ptr_ty(self.locals[s[1][0]]):
                                cur = owners.setdefault(s[1][0], set())
                                if not owners[src[0]] <= cur:
                                    cur |= owners[src[0]]
                                    changed = True
                for bi, bb in enumerate(self.blocks):
                    for si, s in enumerate(bb["stmts"]):
                        if s[0] != "a":
                            continue
                        if s[1][0] in owners and has_deref(s[1][1]):
                            for o in owners[s[1][0]]:
                                add(o, {"kind": "partial", "bb": bi, "idx": si, "rv": s[2], "proj": s[1][1],
                                        "span": s[3], "via_ptr": True})
                        rv = s[2]
                        if rv[0] in ("ref", "rawptr") and (rv[1] == "mut" or "Mut" in rv[1]) \
                                and rv[2][0] in owners and has_deref(rv[2][1]):
                            for o in owners[rv[2][0]]:
                                add(o, {"kind": "mutborrow", "bb": bi, "idx": si, "proj": rv[2][1],
                                        "span": s[3], "via_ptr": True})
                    t = bb["term"]
                    if t["k"] == "call" and t["dst"][0] in owners and has_deref(t["dst"][1]):
                        for o in owners[t["dst"][0]]:
                            add(o, {"kind": "partial", "bb": bi, "idx": "term", "rv": None, "proj": t["dst"][1],
                                    "term": t, "span": t["s"], "via_ptr": True})
            self._defs = d
        return self._defs

    def calls(self):
        for bi, bb in enumerate(self.blocks):
            t = bb["term"]
            if t["k"] == "call":
                yield bi, t

    def live_blocks(self):
        """Indices of non-cleanup blocks reachable from entry."""
        r = self.reachable()
        return [i for i in range(self.n) if i in r and not self.blocks[i]["cleanup"]]


# ---------------------------------------------------------------------------------------------
# value provenance ("root chase")

# callees through which the *value* is preserved: result == first argument (possibly by reference)
DEFAULT_VALUE_PRESERVING = {
    "core::clone::Clone::clone",
    "core::borrow::Borrow::borrow",
    "core::convert::AsRef::as_ref",
    "core::ops::Deref::deref",
    "core::ops::DerefMut::deref_mut",
    "core::convert::Into::into",       # only counts when resolved to the identity blanket (checked below)
    "core::convert::identity",
}


class Root:
    __slots__ = ("kind", "what", "path", "site", "via")

    def __init__(self, kind, what, path=(), site=None, via=()):
        self.kind = kind      # 'param' | 'call' | 'const' | 'agg' | 'op' | 'multi' | 'unknown'
        self.what = what      # param index | callee path | const def/val | adt | op name | local
        self.path = tuple(path)   # field names projected out of the root
        self.site = site      # (bb, idx) where the root value is produced
        self.via = tuple(via)     # value-preserving callees passed on the way

    def key(self):
        return (self.kind, self.what, self.path, self.site)

    def __repr__(self):
        p = "".join("." + x for x in self.path)
        v = (" via " + ",".join(last_seg(x) or "?" for x in self.via)) if self.via else ""
        return "%s(%s)%s%s" % (self.kind, self.what, p, v)


class Provenance:
    def __init__(self, view, value_preserving=None, max_depth=40):
        self.v = view
        self.vp = set(DEFAULT_VALUE_PRESERVING)
        if value_preserving:
            self.vp |= set(value_preserving)
        self.max_depth = max_depth

    def is_vp(self, term):
        from .common import norm_id
        name = callee_name(term)
        decl = callee_decl(term)
        f = term["f"]
        if name in self.vp or decl in self.vp or norm_id(name) in self.vp:
            # Into::into is value-preserving only when it is the reflexive blanket impl
            if decl == "core::convert::Into::into":
                res = f.get("res") or ""
                # <T as Into<U>>::into resolves to the blanket impl; treat as preserving only if
                # the target `From` impl is also in the table; the rule supplies those by name.
                return res in self.vp and res != "core::convert::Into::into"
            return True
        return False

    def roots_of_operand(self, op, path=()):
        if op[0] == "k":
            what = op[3] or op[2]
            return [Root("const", what, path, None)]
        return self.roots_of_place(op[1], path)

    def roots_of_place(self, place, path=(), depth=0, seen=None, via=()):
        """Where does the value stored in `place` (projected by `path`) come from?"""
        local, proj = place
        fp = field_path(proj) + tuple(path)
        return self._roots_local(local, fp, depth, seen or frozenset(), via)

    def _roots_local(self, local, path, depth, seen, via):
        v = self.v
        if depth > self.max_depth or (local, path) in seen:
            return [Root("unknown", local, path, None, via)]
        seen = seen | {(local, path)}
        defs = v.defs.get(local, [])
        full = [d for d in defs if d["kind"] in ("assign", "call")]
        partial = [d for d in defs if d["kind"] in ("partial", "mutborrow")]
        is_param = 1 <= local <= v.argc
        out = []
        if is_param:
            out.append(Root("param", local, path, None, via))
        if partial:
            # mutated in place somewhere: record each mutation as an extra root
            for d in partial:
                out.append(Root("multi", "mutated:%s" % d["kind"], path, (d["bb"], d["idx"]), via))
        if not full and not is_param:
            if not partial:
                out.append(Root("unknown", local, path, None, via))
            return out
        for d in full:
            if d["kind"] == "call":
                t = d["term"]
                if self.is_vp(t) and t["args"]:
                    a0 = t["args"][0]
                    name = callee_name(t)
                    if a0[0] == "k":
                        out.append(Root("const", a0[3] or a0[2], path, (d["bb"], "term"), via + (name,)))
                    else:
                        out += self._roots_local(a0[1][0], field_path(a0[1][1]) + path, depth + 1, seen,
                                                 via + (name,))
                else:
                    out.append(Root("call", callee_name(t) or "<indirect>", path, (d["bb"], "term"), via))
                continue
            rv = d["rv"]
            k = rv[0]
            site = (d["bb"], d["idx"])
            if k in ("use",):
                op = rv[1]
                if op[0] == "k":
                    out.append(Root("const", op[3] or op[2], path, site, via))
                else:
                    out += self._roots_local(op[1][0], field_path(op[1][1]) + path, depth + 1, seen, via)
            elif k in ("ref", "rawptr", "cfd"):
                pl = rv[2] if k != "cfd" else rv[1]
                out += self._roots_local(pl[0], field_path(pl[1]) + path, depth + 1, seen, via)
            elif k == "cast":
                op = rv[2]
                ck = rv[1]
                if op[0] == "k":
                    out.append(Root("const", op[3] or op[2], path, site, via))
                elif ck.startswith("PointerCoercion") or ck in ("PtrToPtr",) or \
                        (ck == "Transmute" and is_ptr_ty(self.v.locals[op[1][0]]) and
                         is_ptr_ty(self.v.locals[local])):
                    out += self._roots_local(op[1][0], field_path(op[1][1]) + path, depth + 1, seen,
                                             via + ("cast:" + ck,))
                else:
                    out.append(Root("op", "cast:" + ck, path, site, via))
            elif k == "agg":
                akind, adt, variant, ops, names = rv[1], rv[2], rv[3], rv[4], rv[5]
                if path and akind in ("adt", "tuple"):
                    fname = path[0]
                    idx = None
                    if akind == "adt" and fname in names:
                        idx = names.index(fname)
                    elif akind == "tuple" and fname.isdigit() and int(fname) < len(ops):
                        idx = int(fname)
                    if idx is not None and idx < len(ops):
                        op = ops[idx]
                        if op[0] == "k":
                            out.append(Root("const", op[3] or op[2], path[1:], site, via))
                        else:
                            out += self._roots_local(op[1][0], field_path(op[1][1]) + path[1:], depth + 1,
                                                     seen, via)
                        continue
                out.append(Root("agg", adt or akind, path, site, via))
            elif k == "bin":
                out.append(Root("op", rv[1], path, site, via))
            elif k == "un":
                out.append(Root("op", rv[1], path, site, via))
            else:
                out.append(Root("op", k, path, site, via))
        return out


def uniq_roots(roots):
    seen = {}
    for r in roots:
        seen.setdefault(r.key(), r)
    return list(seen.values())
