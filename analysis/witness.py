"""E4 — compile-fail witnesses (DESIGN.md §2.4): a generated library crate with rustdoc doctests,
compiled (never executed for the compile_fail ones) by `cargo +nightly test --doc` against the repo
under analysis as an external user would name it."""
import os
import re
import shutil
import subprocess

from . import facts
from .common import Instance

TEMPLATE = os.path.join(facts.VERIF, "witness", "lib.rs.in")


def _dir_size_over(path, limit):
    total = 0
    for root, dirs, files in os.walk(path):
        for f in files:
            try:
                total += os.path.getsize(os.path.join(root, f))
            except OSError:
                pass
            if total > limit:
                return True
    return False


def run(report, config="all"):
    repo = facts.REPO
    scratch = os.path.realpath(repo) != "/repo"
    d = os.path.join(facts.WORK, "witness-crate")
    if scratch:
        import tempfile
        os.makedirs(facts.WORK, exist_ok=True)
        d = tempfile.mkdtemp(prefix="witness-crate-", dir=facts.WORK)
    os.makedirs(os.path.join(d, "src"), exist_ok=True)
    with open(os.path.join(d, "Cargo.toml"), "w") as fh:
        fh.write('[package]\nname = "cbv-witness"\nversion = "0.0.0"\nedition = "2021"\n\n[workspace]\n\n'
                 '[lib]\npath = "src/lib.rs"\n\n[dependencies]\ncrypto-bigint = { path = "%s" }\n' % repo)
    shutil.copy(TEMPLATE, os.path.join(d, "src", "lib.rs"))
    lock = os.path.join(repo, "Cargo.lock")
    if os.path.exists(lock):
        shutil.copy(lock, os.path.join(d, "Cargo.lock"))
    # the shared target directory is kept for /repo only (same path: cargo rebuilds in place); a scratch tree gets a
    # throw-away one — every distinct dependency path adds ~0.5 GB of artifacts that would never be reused
    tgt = os.path.join(facts.WORK, "witness-target")
    if scratch:
        tgt = tempfile.mkdtemp(prefix="witness-tgt-", dir=facts.WORK)
    elif _dir_size_over(tgt, 3 << 30):
        shutil.rmtree(tgt, ignore_errors=True)
    env = dict(os.environ, CARGO_NET_OFFLINE="true", CARGO_TARGET_DIR=tgt)
    env.pop("RUSTC_WORKSPACE_WRAPPER", None)
    try:
        p = subprocess.run(["cargo", "+nightly", "test", "--doc", "--offline"], cwd=d, env=env,
                           stdout=subprocess.PIPE, stderr=subprocess.STDOUT, text=True)
    finally:
        if scratch:
            shutil.rmtree(tgt, ignore_errors=True)
            shutil.rmtree(d, ignore_errors=True)
    out = p.stdout
    results = {}
    for m in re.finditer(r"^test src/lib\.rs - (\w+) \(line (\d+)\)( - compile fail| - compile)? \.\.\. (\w+)", out, re.M):
        name, line, cf, res = m.group(1), int(m.group(2)), (m.group(3) or "").endswith("fail"), m.group(4)
        results.setdefault(name, []).append((line, cf, res))
    if not results:
        report.fatal.append("compile-fail witnesses did not run: %s" % out[-600:])
        return
    for name, rs in sorted(results.items()):
        rs.sort()
        cf = [r for r in rs if r[1]]
        tw = [r for r in rs if not r[1]]
        report.count("compile_fail_witnesses", len(cf))
        key = "c12.witness|%s" % name
        ok = cf and tw and all(r[2] == "ok" for r in rs)
        if ok:
            report.add(Instance(key, "c12.witness", "ok",
                                "auto: the violating user program is rejected by rustc with the expected error code "
                                "and its compiling twin builds", "witness/lib.rs.in",
                                {"witness": name}), config)
        else:
            report.add(Instance(key, "c12.witness", "violation",
                                "type-level witness `%s` no longer holds: %s (a user program that constructs or mutates "
                                "the wrapper directly now compiles, or the twin broke)" % (
                                    name, ["%s%s:%s" % ("compile_fail" if c else "twin", "", r) for _, c, r in rs]),
                                "witness/lib.rs.in", {"witness": name}), config)
