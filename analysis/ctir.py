"""E3 — taint / points-to analysis of the optimised LLVM IR (DESIGN.md §2.3), thorough tier of C01.

A generated harness crate (path dependency on the repo under analysis) holds one
`#[no_mangle] #[inline(never)]` wrapper per (operation, width). It is built with
`cargo build --release` and RUSTFLAGS `--emit=llvm-ir -C codegen-units=1`, so that the harness *and*
crypto-bigint (for the functions LLVM did not inline) are available as textual IR. The IR is parsed and
analysed; nothing is executed.

Model: SSA values carry a taint (set of labels) and a points-to set of (object, byte offset | None).
Memory objects (wrapper arguments, allocas, heap allocation sites, globals) carry taint per 8-byte slot.
Per wrapper, a context-insensitive interprocedural fixpoint over the functions reachable from it.
Leak events: conditional branch / switch on a tainted value (unless one side only aborts),
load/store through a pointer computed from a tainted index, udiv/urem/sdiv/srem with a tainted operand
and non-constant divisor, memcpy/memset/alloc with tainted length, tainted argument to an unknown external.
`select` is not a leak.
"""
import os
import re
import shutil
import subprocess
import sys

from . import facts

SECRET = "S"

# ---------------------------------------------------------------------------------------------
# harness generation

WIDTHS = [("U64", 1), ("U128", 2), ("U192", 3), ("U256", 4), ("U512", 8), ("U1024", 16), ("U2048", 32)]

# (name, signature template, body template, shapes) — T = Uint type; args default secret
UINT_OPS = [
    ("add_mod", "a: &T, b: &T, p: &T, out: &mut T", "*out = a.add_mod(b, p);", {}),
    ("sub_mod", "a: &T, b: &T, p: &T, out: &mut T", "*out = a.sub_mod(b, p);", {}),
    ("neg_mod", "a: &T, p: &T, out: &mut T", "*out = a.neg_mod(p);", {}),
    ("wrapping_add", "a: &T, b: &T, out: &mut T", "*out = a.wrapping_add(b);", {}),
    ("wrapping_sub", "a: &T, b: &T, out: &mut T", "*out = a.wrapping_sub(b);", {}),
    ("wrapping_mul", "a: &T, b: &T, out: &mut T", "*out = a.wrapping_mul(b);", {}),
    ("checked_add", "a: &T, b: &T, out: &mut T, ok: &mut u8", "let r = a.checked_add(b); *ok = r.is_some().unwrap_u8(); *out = r.unwrap_or(T::ZERO);", {}),
    ("square", "a: &T, out: &mut T", "*out = a.wrapping_square();", {}),
    ("shl", "a: &T, s: u32, out: &mut T", "*out = a.overflowing_shl(s).unwrap_or(T::ZERO);", {}),
    ("shr", "a: &T, s: u32, out: &mut T", "*out = a.overflowing_shr(s).unwrap_or(T::ZERO);", {}),
    ("shl_vartime", "a: &T, s: u32, out: &mut T", "*out = a.overflowing_shl_vartime(s).unwrap_or(T::ZERO);", {"s": "public"}),
    ("bits", "a: &T) -> u32 {", "a.bits()", {}),
    ("leading_zeros", "a: &T) -> u32 {", "a.leading_zeros()", {}),
    ("trailing_zeros", "a: &T) -> u32 {", "a.trailing_zeros()", {}),
    ("bit", "a: &T, i: u32) -> u8 {", "Choice::from(a.bit(i)).unwrap_u8()", {}),
    ("ct_eq", "a: &T, b: &T) -> u8 {", "a.ct_eq(b).unwrap_u8()", {}),
    ("ct_lt", "a: &T, b: &T) -> u8 {", "a.ct_lt(b).unwrap_u8()", {}),
    ("ct_gt", "a: &T, b: &T) -> u8 {", "a.ct_gt(b).unwrap_u8()", {}),
    ("cmp", "a: &T, b: &T) -> i8 {", "a.cmp(b) as i8", {}),
    ("is_odd", "a: &T) -> u8 {", "Choice::from(a.is_odd()).unwrap_u8()", {}),
    ("select", "a: &T, b: &T, c: u8, out: &mut T", "*out = T::conditional_select(a, b, Choice::from(c));", {}),
    ("div_rem", "a: &T, b: &NonZero<T>, q: &mut T, r: &mut T", "let (x, y) = a.div_rem(b); *q = x; *r = y;", {}),
    ("rem", "a: &T, b: &NonZero<T>, r: &mut T", "*r = a.rem(b);", {}),
    ("div_rem_vartime", "a: &T, b: &NonZero<T>, q: &mut T, r: &mut T", "let (x, y) = a.div_rem_vartime(b); *q = x; *r = y;", {"b": "public_mem"}),
    ("div_rem_limb", "a: &T, b: &NonZero<Limb>, q: &mut T, r: &mut Limb", "let (x, y) = a.div_rem_limb(*b); *q = x; *r = y;", {}),
    ("sqrt", "a: &T, out: &mut T", "*out = a.sqrt();", {}),
    ("inv_mod2k", "a: &T, k: u32, out: &mut T", "*out = a.inv_mod2k(k).unwrap_or(T::ZERO);", {}),
    ("mul_mod_special", "a: &T, b: &T, c: &Limb, out: &mut T", "*out = a.mul_mod_special(b, *c);", {}),
    ("monty_mul", "a: &T, b: &T, p: &MontyParams<N>, out: &mut T",
     "let x = MontyForm::from_montgomery(*a, *p); let y = MontyForm::from_montgomery(*b, *p); *out = *x.mul(&y).as_montgomery();", {"p": "public_mem"}),
    ("monty_add", "a: &T, b: &T, p: &MontyParams<N>, out: &mut T",
     "let x = MontyForm::from_montgomery(*a, *p); let y = MontyForm::from_montgomery(*b, *p); *out = *x.add(&y).as_montgomery();", {"p": "public_mem"}),
    ("monty_new_retrieve", "a: &T, p: &MontyParams<N>, out: &mut T",
     "*out = MontyForm::new(a, *p).retrieve();", {"p": "public_mem"}),
    ("monty_pow", "a: &T, e: &T, p: &MontyParams<N>, out: &mut T",
     "let x = MontyForm::from_montgomery(*a, *p); *out = *x.pow(e).as_montgomery();", {"p": "public_mem"}),
]
# operations with a known source-level finding: a leak in the IR is expected (cross-check), not a new violation
UINT_OPS_KNOWN = [
    ("inv_odd_mod", "a: &T, m: &Odd<T>, out: &mut T", "*out = a.inv_odd_mod(m).unwrap_or(T::ZERO);", {},
     "safegcd divsteps/jump (known finding at MIR level)"),
    ("gcd", "a: &T, b: &T, out: &mut T", "*out = a.gcd(b);", {}, "safegcd (known finding at MIR level)"),
]
KNOWN_WIDTHS = {"U64", "U128", "U192", "U256", "U512", "U1024", "U2048"}
SAFEGCD_WIDTHS = {"U64", "U128", "U192", "U256", "U512", "U1024", "U2048"}
POW_WIDTHS = {"U64", "U128", "U256", "U512"}

INT_WIDTHS = [("I64", 1), ("I128", 2), ("I256", 4), ("I512", 8)]
INT_OPS = [
    ("int_wrapping_add", "a: &T, b: &T, out: &mut T", "*out = a.wrapping_add(b);", {}),
    ("int_wrapping_sub", "a: &T, b: &T, out: &mut T", "*out = a.wrapping_sub(b);", {}),
    ("int_checked_mul", "a: &T, b: &T, out: &mut T, ok: &mut u8", "let r = a.checked_mul(b); *ok = Choice::from(r.is_some()).unwrap_u8(); *out = r.unwrap_or(T::ZERO);", {}),
    ("int_wrapping_neg", "a: &T, out: &mut T", "*out = a.wrapping_neg();", {}),
    ("int_abs", "a: &T, out: &mut U, neg: &mut u8", "let (m, s) = a.abs_sign(); *out = m; *neg = Choice::from(s).unwrap_u8();", {}),
    ("int_shr", "a: &T, s: u32, out: &mut T", "*out = a.overflowing_shr(s).unwrap_or(T::ZERO);", {}),
    ("int_shl", "a: &T, s: u32, out: &mut T", "*out = a.overflowing_shl(s).unwrap_or(T::ZERO);", {}),
    ("int_cmp", "a: &T, b: &T) -> i8 {", "a.cmp(b) as i8", {}),
    ("int_ct_lt", "a: &T, b: &T) -> u8 {", "a.ct_lt(b).unwrap_u8()", {}),
    ("int_select", "a: &T, b: &T, c: u8, out: &mut T", "*out = T::conditional_select(a, b, Choice::from(c));", {}),
    ("int_checked_div", "a: &T, b: &T, out: &mut T, ok: &mut u8", "let r = a.checked_div(b); *ok = r.is_some().unwrap_u8(); *out = r.unwrap_or(T::ZERO);", {}),
]
LIMB_OPS = [
    ("limb_adc", "a: &Limb, b: &Limb, c: &Limb, out: &mut Limb, co: &mut Limb", "let (x, y) = a.adc(*b, *c); *out = x; *co = y;", {}),
    ("limb_mac", "a: &Limb, b: &Limb, c: &Limb, d: &Limb, out: &mut Limb, co: &mut Limb", "let (x, y) = a.mac(*b, *c, *d); *out = x; *co = y;", {}),
    ("limb_cmp", "a: &Limb, b: &Limb) -> i8 {", "a.cmp(b) as i8", {}),
    ("limb_ct_lt", "a: &Limb, b: &Limb) -> u8 {", "a.ct_lt(b).unwrap_u8()", {}),
    ("limb_select", "a: &Limb, b: &Limb, c: u8, out: &mut Limb", "*out = Limb::conditional_select(a, b, Choice::from(c));", {}),
    ("limb_bits", "a: &Limb) -> u32 {", "a.bits()", {}),
]
# compile-time modulus (public by construction): P-256 field prime
CONST_MONTY_PRELUDE = """
crypto_bigint::impl_modulus!(CbvP256, U256, "ffffffff00000001000000000000000000000000ffffffffffffffffffffffff");
type CbvFe = crypto_bigint::modular::ConstMontyForm<CbvP256, { U256::LIMBS }>;
"""
CONST_MONTY_OPS = [
    ("cmf_new_retrieve", "a: &U256, out: &mut U256", "*out = CbvFe::new(a).retrieve();", {}),
    ("cmf_mul", "a: &U256, b: &U256, out: &mut U256", "*out = *CbvFe::from_montgomery(*a).mul(&CbvFe::from_montgomery(*b)).as_montgomery();", {}),
    ("cmf_square", "a: &U256, out: &mut U256", "*out = *CbvFe::from_montgomery(*a).square().as_montgomery();", {}),
    ("cmf_add", "a: &U256, b: &U256, out: &mut U256", "*out = *CbvFe::from_montgomery(*a).add(&CbvFe::from_montgomery(*b)).as_montgomery();", {}),
    ("cmf_sub", "a: &U256, b: &U256, out: &mut U256", "*out = *CbvFe::from_montgomery(*a).sub(&CbvFe::from_montgomery(*b)).as_montgomery();", {}),
    ("cmf_neg", "a: &U256, out: &mut U256", "*out = *CbvFe::from_montgomery(*a).neg().as_montgomery();", {}),
    ("cmf_pow", "a: &U256, e: &U256, out: &mut U256", "*out = *CbvFe::from_montgomery(*a).pow(e).as_montgomery();", {}),
    ("cmf_div_by_2", "a: &U256, out: &mut U256", "*out = *CbvFe::from_montgomery(*a).div_by_2().as_montgomery();", {}),
]
CONST_MONTY_KNOWN = [
    ("cmf_inv", "a: &U256, out: &mut U256", "*out = *subtle::CtOption::from(CbvFe::from_montgomery(*a).inv()).unwrap_or(CbvFe::ZERO).as_montgomery();", {},
     "safegcd (known finding at MIR level)"),
]

BOXED_OPS = [
    ("boxed_add_mod", "a: &BoxedUint, b: &BoxedUint, p: &BoxedUint) -> BoxedUint {", "a.add_mod(b, p)", {}),
    ("boxed_sub_mod", "a: &BoxedUint, b: &BoxedUint, p: &BoxedUint) -> BoxedUint {", "a.sub_mod(b, p)", {}),
    ("boxed_wrapping_add", "a: &BoxedUint, b: &BoxedUint) -> BoxedUint {", "a.wrapping_add(b)", {}),
    ("boxed_wrapping_mul", "a: &BoxedUint, b: &BoxedUint) -> BoxedUint {", "a.wrapping_mul(b)", {}),
    ("boxed_ct_eq", "a: &BoxedUint, b: &BoxedUint) -> u8 {", "a.ct_eq(b).unwrap_u8()", {}),
    ("boxed_ct_lt", "a: &BoxedUint, b: &BoxedUint) -> u8 {", "a.ct_lt(b).unwrap_u8()", {}),
    ("boxed_select", "a: &BoxedUint, b: &BoxedUint, c: u8) -> BoxedUint {", "BoxedUint::ct_select(a, b, Choice::from(c))", {}),
    ("boxed_bits", "a: &BoxedUint) -> u32 {", "a.bits()", {}),
    ("boxed_div_rem", "a: &BoxedUint, b: &NonZero<BoxedUint>) -> (BoxedUint, BoxedUint) {", "a.div_rem(b)", {}),
]
BOXED_KNOWN = [
    ("boxed_shl", "a: &BoxedUint, s: u32) -> BoxedUint {", "a.overflowing_shl(s).0", {},
     "secret shift % bits_precision() (known finding at MIR level)"),
]


def gen_harness():
    out = ["#![allow(clippy::all, unused_imports, unused_variables)]",
           "use crypto_bigint::modular::{BoxedMontyForm, BoxedMontyParams, MontyForm, MontyParams};",
           "use crypto_bigint::*;",
           "use subtle::{Choice, ConditionallySelectable, ConstantTimeEq, ConstantTimeGreater, ConstantTimeLess};",
           "use core::ops::{Add, Mul, Neg, Sub};", ""]
    table = {}

    def emit(wname, sig, body, shapes, known=None):
        names = re.findall(r"(\w+): ", sig.split(")")[0])
        if sig.rstrip().endswith("{"):
            out.append("#[no_mangle] #[inline(never)] pub fn %s(%s %s }" % (wname, sig, body))
        else:
            out.append("#[no_mangle] #[inline(never)] pub fn %s(%s) { %s }" % (wname, sig, body))
        table[wname] = {"params": names, "shapes": shapes, "known": known}

    for tname, n in WIDTHS:
        for (op, sig, body, shapes) in UINT_OPS:
            if op == "monty_pow" and tname not in POW_WIDTHS:
                continue
            s2 = sig.replace("MontyParams<N>", "MontyParams<%d>" % n)
            s2 = re.sub(r"\bT\b", tname, s2)
            b2 = re.sub(r"\bT\b", tname, body)
            emit("w_%s_%s" % (tname.lower(), op), s2, b2, shapes)
        for (op, sig, body, shapes, why) in UINT_OPS_KNOWN:
            if tname not in SAFEGCD_WIDTHS:
                continue
            emit("w_%s_%s" % (tname.lower(), op), re.sub(r"\bT\b", tname, sig), re.sub(r"\bT\b", tname, body), shapes, why)
    for tname, n in INT_WIDTHS:
        uname = "U" + tname[1:]
        for (op, sig, body, shapes) in INT_OPS:
            s2 = re.sub(r"\bT\b", tname, sig)
            s2 = re.sub(r"\bU\b", uname, s2)
            b2 = re.sub(r"\bT\b", tname, body)
            b2 = re.sub(r"\bU\b", uname, b2)
            emit("w_%s_%s" % (tname.lower(), op), s2, b2, shapes)
    for (op, sig, body, shapes) in LIMB_OPS:
        emit("w_" + op, sig, body, shapes)
    out.append(CONST_MONTY_PRELUDE)
    for (op, sig, body, shapes) in CONST_MONTY_OPS:
        emit("w_" + op, sig, body, shapes)
    for (op, sig, body, shapes, why) in CONST_MONTY_KNOWN:
        emit("w_" + op, sig, body, shapes, why)
    for (op, sig, body, shapes) in BOXED_OPS:
        emit("w_" + op, sig, body, shapes)
    for (op, sig, body, shapes, why) in BOXED_KNOWN:
        emit("w_" + op, sig, body, shapes, why)
    return "\n".join(out) + "\n", table


def build_harness(repo):
    d = os.path.join(facts.WORK, "ctir-crate")
    os.makedirs(os.path.join(d, "src"), exist_ok=True)
    src, table = gen_harness()
    with open(os.path.join(d, "Cargo.toml"), "w") as fh:
        fh.write('[package]\nname = "cbv-ctir"\nversion = "0.0.0"\nedition = "2021"\n\n[workspace]\n\n[lib]\npath = "src/lib.rs"\n'
                 'crate-type = ["rlib"]\n\n[dependencies]\ncrypto-bigint = { path = "%s", features = ["alloc"] }\n'
                 'subtle = { version = "2.6", default-features = false }\n\n[profile.release]\nopt-level = 3\n'
                 'codegen-units = 1\ndebug = false\npanic = "abort"\n' % repo)
    with open(os.path.join(d, "src", "lib.rs"), "w") as fh:
        fh.write(src)
    lock = os.path.join(repo, "Cargo.lock")
    if os.path.exists(lock):
        shutil.copy(lock, os.path.join(d, "Cargo.lock"))
    tgt = os.path.join(facts.WORK, "ctir-target")
    # always rebuild from the repo's current sources: cargo tracks the path dependency; remove stale IR first
    deps = os.path.join(tgt, "release", "deps")
    if os.path.isdir(deps):
        for f in os.listdir(deps):
            if f.endswith(".ll"):
                os.unlink(os.path.join(deps, f))
    env = dict(os.environ, CARGO_NET_OFFLINE="true", CARGO_TARGET_DIR=tgt,
               RUSTFLAGS="--emit=llvm-ir,link -C codegen-units=1 -Awarnings")
    env.pop("RUSTC_WORKSPACE_WRAPPER", None)
    p = subprocess.run(["cargo", "build", "--release", "--offline"], cwd=d, env=env,
                       stdout=subprocess.PIPE, stderr=subprocess.STDOUT, text=True)
    if p.returncode != 0:
        raise RuntimeError("IR harness failed to build:\n" + p.stdout[-3000:])
    lls = [os.path.join(deps, f) for f in os.listdir(deps)
           if f.endswith(".ll") and (f.startswith("cbv_ctir") or f.startswith("crypto_bigint") or f.startswith("subtle"))]
    if not any(os.path.basename(f).startswith("crypto_bigint") for f in lls):
        # cargo considered the dependency fresh and did not re-emit its IR: force it
        subprocess.run(["cargo", "clean", "--release", "-p", "crypto-bigint", "--offline"], cwd=d, env=env,
                       stdout=subprocess.DEVNULL, stderr=subprocess.DEVNULL)
        p = subprocess.run(["cargo", "build", "--release", "--offline"], cwd=d, env=env,
                           stdout=subprocess.PIPE, stderr=subprocess.STDOUT, text=True)
        lls = [os.path.join(deps, f) for f in os.listdir(deps)
               if f.endswith(".ll") and (f.startswith("cbv_ctir") or f.startswith("crypto_bigint") or f.startswith("subtle"))]
    return lls, table


# ---------------------------------------------------------------------------------------------
# IR parsing

NAME = r'(?:"[^"]*"|[-\w.$]+)'
RE_DEFINE = re.compile(r'^define\s.*?@(' + NAME + r')\((.*)\)[^()]*\{\s*$')
RE_LABEL = re.compile(r'^(' + NAME + r'):')
RE_ASSIGN = re.compile(r'^\s+(%' + NAME + r')\s*=\s*(.*)$')
RE_LOCAL = re.compile(r'%' + NAME)
RE_GLOBAL = re.compile(r'@' + NAME)
RE_META = re.compile(r',\s*![\w.]+\s+![\w.]+')


class Func:
    __slots__ = ("name", "params", "blocks", "order", "module")

    def __init__(self, name, params):
        self.name = name
        self.params = params      # list of (name, is_ptr)
        self.blocks = {}          # label -> list of (res, text)
        self.order = []


def split_top(s):
    out = []
    depth = 0
    cur = ""
    inq = False
    for c in s:
        if c == '"':
            inq = not inq
        if not inq:
            if c in "([{<":
                depth += 1
            elif c in ")]}>":
                depth -= 1
            elif c == "," and depth == 0:
                out.append(cur.strip())
                cur = ""
                continue
        cur += c
    if cur.strip():
        out.append(cur.strip())
    return out


class Module:
    def __init__(self, paths):
        self.index = {}    # fn name -> (path, byte offset)
        self.aliases = {}
        self.cache = {}
        self.declared = set()
        for p in paths:
            with open(p, "rb") as fh:
                off = 0
                for line in fh:
                    if line.startswith(b"define"):
                        m = RE_DEFINE.match(line.decode("utf-8", "replace").rstrip("\n"))
                        if m:
                            self.index.setdefault(m.group(1).strip('"'), (p, off))
                    elif line.startswith(b"@") and b" alias " in line:
                        # identical functions merged by LLVM: `@a = [attrs] alias <ty>, ptr @b`
                        am = re.match(r'^@(' + NAME + r')\s*=.*\balias\b.*@(' + NAME + r')\s*$',
                                      line.decode("utf-8", "replace").rstrip("\n"))
                        if am:
                            self.aliases[am.group(1).strip('"')] = am.group(2).strip('"')
                    off += len(line)

    def get(self, name):
        name = name.strip('"')
        hops = 0
        while name not in self.index and name in self.aliases and hops < 4:
            name = self.aliases[name]
            hops += 1
        if name in self.cache:
            return self.cache[name]
        if name not in self.index:
            return None
        path, off = self.index[name]
        with open(path, "rb") as fh:
            fh.seek(off)
            head = fh.readline().decode("utf-8", "replace").rstrip("\n")
            m = RE_DEFINE.match(head)
            params = []
            for a in split_top(m.group(2)):
                if a == "...":
                    continue
                nm = RE_LOCAL.findall(a)
                is_ptr = a.lstrip().startswith("ptr")
                params.append((nm[-1] if nm else None, is_ptr))
            f = Func(name, params)
            cur = "%entry"
            f.blocks[cur] = []
            f.order.append(cur)
            first = True
            for raw in fh:
                line = raw.decode("utf-8", "replace").rstrip("\n")
                if line.startswith("}"):
                    break
                if not line.strip() or line.lstrip().startswith(";"):
                    continue
                lm = RE_LABEL.match(line)
                if lm and not line.startswith(" "):
                    lab = "%" + lm.group(1)
                    if first and not f.blocks[cur]:
                        del f.blocks[cur]
                        f.order.pop()
                    cur = lab
                    f.blocks[cur] = []
                    f.order.append(cur)
                    first = False
                    continue
                first = False
                line = RE_META.sub("", line)
                am = RE_ASSIGN.match(line)
                if am:
                    f.blocks[cur].append((am.group(1), am.group(2).strip()))
                else:
                    f.blocks[cur].append((None, line.strip()))
        self.cache[name] = f
        return f


# ---------------------------------------------------------------------------------------------
# analysis


class Obj:
    """Abstract memory object. Taint is kept per write record (function, block, offset, size) so that a load
    only sees the writes that can reach it in the CFG of its own function (writes made in other functions are
    always visible): a cheap flow-sensitivity that separates `y` used as divisor from `y` reused for the
    remainder afterwards."""
    __slots__ = ("name", "writes", "smear", "ptrs", "kind", "wkeys")

    def __init__(self, name, kind="mem"):
        self.name = name
        self.writes = []     # (fn, block, off|None, size, taint)
        self.wkeys = {}
        self.smear = frozenset()   # initial content (argument shapes)
        self.ptrs = set()
        self.kind = kind

    def read(self, off, size=8, at=None, reach=None):
        t = set(self.smear)
        lo = None if off is None else off
        hi = None if off is None else off + max(size, 1)
        for (wf, wb, woff, wsize, wt) in self.writes:
            if at is not None and reach is not None and wf == at[0] and wb != at[1] and at[1] not in reach(wf, wb):
                continue
            if off is None or woff is None or (woff < hi and lo < woff + max(wsize, 1)):
                t |= wt
        return frozenset(t)

    def write(self, off, taint, size=8, at=None):
        if not taint:
            return False
        key = (at[0] if at else None, at[1] if at else None, off, size)
        cur = self.wkeys.get(key)
        if cur is None:
            self.wkeys[key] = len(self.writes)
            self.writes.append((key[0], key[1], off, size, frozenset(taint)))
            return True
        rec = self.writes[cur]
        if not taint <= rec[4]:
            self.writes[cur] = (rec[0], rec[1], rec[2], rec[3], rec[4] | taint)
            return True
        return False


PURE_EXTERNALS = ("llvm.", "_ZN6subtle9black_box", "_ZN4core3fmt", "_RNvXs")
ALLOC_FNS = ("__rust_alloc", "__rust_alloc_zeroed", "__rust_realloc", "__rustc::__rust_alloc", "_RNvCs")
PANIC_HINTS = ("panic", "unwrap_failed", "expect_failed", "slice_index", "slice_start_index", "slice_end_index",
               "handle_alloc_error", "capacity_overflow", "alloc_error", "raw_vec")


def is_panic_fn(name):
    n = name.lower()
    return any(h in n for h in PANIC_HINTS)


def type_size(ty):
    ty = ty.strip()
    m = re.match(r"i(\d+)$", ty)
    if m:
        return max(1, int(m.group(1)) // 8)
    if ty == "ptr":
        return 8
    m = re.match(r"<(\d+) x (.+)>$", ty)
    if m:
        return int(m.group(1)) * type_size(m.group(2))
    m = re.match(r"\[(\d+) x (.+)\]$", ty)
    if m:
        return int(m.group(1)) * type_size(m.group(2))
    if ty.startswith("{"):
        return sum(type_size(x) for x in split_top(ty.strip("{} ")))
    return 8


class Analysis:
    def __init__(self, module, wrapper, params, shapes):
        self.m = module
        self.w = wrapper
        self.taint = {}     # (fn, %val) -> frozenset
        self.pts = {}       # (fn, %val) -> set of (Obj, off)
        self.objs = {}
        self.events = {}
        self.ret_taint = {}
        self.ret_pts = {}
        self.reached = set()
        self.unknown_ext = set()
        self.unresolved = set()
        self.final = False
        self._reach = {}
        f = module.get(wrapper)
        if f is None:
            raise RuntimeError("wrapper %s not found in IR" % wrapper)
        wrapper = f.name          # the wrapper may be an alias of an identical (merged) function
        self.w = wrapper
        # seed arguments
        ir_params = [p for p in f.params]
        # sret / out pointers come first in IR when the Rust fn returns an aggregate by memory
        extra = len(ir_params) - len(params)
        names = [None] * max(extra, 0) + list(params)
        for (pname, is_ptr), rname in zip(ir_params, names):
            if pname is None:
                continue
            shape = shapes.get(rname) if rname else None
            if is_ptr:
                if rname is None:
                    o = self.obj("ret:" + pname)
                    self.pts[(wrapper, pname)] = {(o, 0)}
                elif shape == "public_mem":
                    o = self.obj("arg:" + rname)
                    self.pts[(wrapper, pname)] = {(o, 0)}
                elif shape == "public_deep":
                    # public data structure with public heap blocks behind it (BoxedMontyParams)
                    o = self.obj("arg:" + rname)
                    o.ptrs.add((o, None))
                    self.pts[(wrapper, pname)] = {(o, 0)}
                elif shape == "monty_form":
                    # &BoxedMontyForm { montgomery_form: BoxedUint{ptr,len}, params: Arc<..> }: header public,
                    # every heap block reachable through a pointer in the header: limbs secret, params public.
                    o = self.obj("arg:" + rname)
                    heap = self.obj("arg:" + rname + ".heap")
                    heap.smear = frozenset({SECRET})
                    o.ptrs.add((heap, 0))
                    self.pts[(wrapper, pname)] = {(o, 0)}
                elif rname and "BoxedUint" in "":
                    pass
                else:
                    o = self.obj("arg:" + rname)
                    self.pts[(wrapper, pname)] = {(o, 0)}
                    if rname in BOXED_PARAM_HINT.get(wrapper, ()):  # never used: shapes decided below
                        pass
                    o.smear = frozenset({SECRET})
            else:
                if shape == "public":
                    self.taint[(wrapper, pname)] = frozenset()
                else:
                    self.taint[(wrapper, pname)] = frozenset({SECRET})

    def reach(self, fn, block):
        """Blocks reachable from `block` in function fn (including itself)."""
        key = (fn, block)
        r = self._reach.get(key)
        if r is not None:
            return r
        f = self.m.get(fn)
        seen = {block}
        st = [block]
        while st:
            x = st.pop()
            blk = f.blocks.get(x) if f else None
            if not blk:
                continue
            text = blk[-1][1]
            for l in re.findall(r"label (%" + NAME + r")", text):
                if l not in seen:
                    seen.add(l)
                    st.append(l)
        self._reach[key] = seen
        return seen

    def obj(self, name):
        o = self.objs.get(name)
        if o is None:
            o = Obj(name)
            self.objs[name] = o
        return o

    # -------------------------------------------------------------------------------------
    def val_taint(self, fn, tok):
        return self.taint.get((fn, tok), frozenset())

    def val_pts(self, fn, tok):
        if tok.startswith("@"):
            return {(self.obj("global:" + tok), 0)}
        return self.pts.get((fn, tok), set())

    def operands(self, text):
        return RE_LOCAL.findall(text)

    def set_taint(self, fn, res, t):
        cur = self.taint.get((fn, res), frozenset())
        if not t <= cur:
            self.taint[(fn, res)] = cur | t
            return True
        return False

    def set_pts(self, fn, res, p):
        cur = self.pts.get((fn, res))
        if cur is None:
            if p:
                self.pts[(fn, res)] = set(p)
                return True
            return False
        if not p <= cur:
            cur |= p
            return True
        return False

    def event(self, kind, fn, block, text, taint):
        key = (kind, fn, block, text[:80])
        if key not in self.events:
            self.events[key] = set()
        self.events[key] |= taint

    # -------------------------------------------------------------------------------------
    def run(self):
        work = [self.w]
        self.reached.add(self.w)
        rounds = 0
        changed = True
        while changed and rounds < 60:
            changed = False
            rounds += 1
            for fn in list(self.reached):
                f = self.m.get(fn)
                if f is None:
                    continue
                if self.step_function(f):
                    changed = True
        self.final = True
        for fn in list(self.reached):
            f = self.m.get(fn)
            if f is not None:
                self.step_function(f)
        return self.events

    def only_aborts(self, f, label, seen=None):
        """Does every path from `label` end in `unreachable` (panic/abort) without returning?"""
        seen = seen if seen is not None else set()
        if label in seen:
            return True
        seen.add(label)
        blk = f.blocks.get(label)
        if not blk:
            return False
        res, text = blk[-1]
        if text.startswith("unreachable"):
            return True
        if text.startswith("ret"):
            return False
        if text.startswith("br ") or text.startswith("switch "):
            labs = re.findall(r"label (%" + NAME + r")", text)
            return bool(labs) and all(self.only_aborts(f, l, seen) for l in labs) and len(seen) < 40
        if text.startswith("invoke"):
            return False
        return False

    def step_function(self, f):
        fn = f.name
        ch = False
        for label in f.order:
            for (res, text) in f.blocks[label]:
                op = text.split(" ", 1)[0]
                if op in ("tail", "musttail", "notail"):
                    text2 = text.split(" ", 1)[1]
                    op = text2.split(" ", 1)[0]
                else:
                    text2 = text
                if op == "call" or op == "invoke":
                    if self.do_call(f, label, res, text2):
                        ch = True
                    continue
                if op == "load":
                    m = re.match(r"load (?:volatile )?(.+?), ptr (%s|@%s|%%%s)" % (NAME, NAME, NAME), text2)
                    ptr = RE_LOCAL.findall(text2.split(", ptr ", 1)[1])[0] if ", ptr %" in text2 else None
                    ty = text2[5:].split(", ptr", 1)[0].strip()
                    size = type_size(ty)
                    t = set()
                    p = set()
                    if ptr is None:
                        g = RE_GLOBAL.findall(text2)
                        targets = {(self.obj("global:" + g[0]), 0)} if g else set()
                    else:
                        targets = self.val_pts(fn, ptr)
                        pt = self.val_taint(fn, ptr)
                        if pt:
                            self.event("index", fn, label, text, pt)
                    if not targets and ptr is not None and self.final:
                        # pointer of unknown provenance after the fixpoint: recorded, the wrapper's verdict is
                        # then "incomplete" rather than "clean"
                        self.unresolved.add((fn, label, text[:60]))
                    for (o, off) in targets:
                        if ty == "ptr":
                            p |= o.ptrs
                        else:
                            t |= o.read(off, size, (fn, label), self.reach)
                            if "x ptr" in ty:
                                p |= o.ptrs
                    if res:
                        if self.set_taint(fn, res, frozenset(t)):
                            ch = True
                        if p and self.set_pts(fn, res, p):
                            ch = True
                    continue
                if op == "store":
                    m = re.match(r"store (?:volatile )?(.+), ptr (\S+)$", text2.split(", align")[0])
                    if not m:
                        continue
                    valpart, ptr = m.group(1), m.group(2)
                    ty = valpart.rsplit(" ", 1)[0]
                    vtoks = RE_LOCAL.findall(valpart)
                    t = set()
                    vp = set()
                    for v in vtoks:
                        t |= self.val_taint(fn, v)
                        vp |= self.val_pts(fn, v)
                    for g in RE_GLOBAL.findall(valpart):
                        vp |= {(self.obj("global:" + g), 0)}
                    size = type_size(ty)
                    if ptr.startswith("%"):
                        pt = self.val_taint(fn, ptr)
                        if pt:
                            self.event("index", fn, label, text, pt)
                        targets = self.val_pts(fn, ptr)
                    else:
                        targets = {(self.obj("global:" + ptr), 0)}
                    for (o, off) in targets:
                        if o.write(off, frozenset(t), size, (fn, label)):
                            ch = True
                        if vp and not vp <= o.ptrs:
                            o.ptrs |= vp
                            ch = True
                    continue
                if op == "getelementptr":
                    body = text2[len("getelementptr"):].strip()
                    body = re.sub(r"^(inbounds|nuw|nusw|nsw|inrange\([^)]*\))\s+", "", body)
                    body = re.sub(r"^(inbounds|nuw|nusw|nsw)\s+", "", body)
                    body = re.sub(r"^(inbounds|nuw|nusw|nsw)\s+", "", body)
                    parts = split_top(body)
                    elty = parts[0]
                    base = parts[1].split()[-1]
                    idxs = parts[2:]
                    delta = 0
                    t = set()
                    if base.startswith("%"):
                        t |= self.val_taint(fn, base)
                    esize = type_size(elty)
                    for k, ix in enumerate(idxs):
                        tok = ix.split()[-1]
                        if tok.startswith("%"):
                            delta = None
                            t |= self.val_taint(fn, tok)
                        elif delta is not None:
                            try:
                                c = int(tok)
                            except ValueError:
                                delta = None
                                continue
                            if k == 0:
                                delta += c * esize
                            else:
                                # nested index into aggregate: approximate with element size of inner type
                                inner = re.match(r"\[(\d+) x (.+)\]$", elty.strip())
                                if inner:
                                    delta += c * type_size(inner.group(2))
                                else:
                                    delta = None
                    p = set()
                    for (o, off) in self.val_pts(fn, base):
                        if off is None or delta is None:
                            p.add((o, None))
                        else:
                            p.add((o, off + delta))
                    if res:
                        if self.set_pts(fn, res, p):
                            ch = True
                        if self.set_taint(fn, res, frozenset(t)):
                            ch = True
                    continue
                if op == "alloca":
                    o = self.obj("alloca:%s:%s" % (fn, res))
                    if self.set_pts(fn, res, {(o, 0)}):
                        ch = True
                    continue
                if op == "br":
                    if text2.startswith("br i1 "):
                        c = RE_LOCAL.findall(text2)
                        if c:
                            ct = self.val_taint(fn, c[0])
                            if ct:
                                labs = re.findall(r"label (%" + NAME + r")", text2)
                                if any(self.only_aborts(f, l) for l in labs):
                                    self.event("abort-guard", fn, label, text, ct)
                                else:
                                    self.event("branch", fn, label, text, ct)
                    continue
                if op == "switch":
                    c = RE_LOCAL.findall(text2.split(",", 1)[0])
                    if c:
                        ct = self.val_taint(fn, c[0])
                        if ct:
                            self.event("branch", fn, label, text, ct)
                    continue
                if op == "ret":
                    toks = RE_LOCAL.findall(text2)
                    t = set()
                    p = set()
                    for v in toks:
                        t |= self.val_taint(fn, v)
                        p |= self.val_pts(fn, v)
                    cur = self.ret_taint.get(fn, frozenset())
                    if not frozenset(t) <= cur:
                        self.ret_taint[fn] = cur | frozenset(t)
                        ch = True
                    curp = self.ret_pts.setdefault(fn, set())
                    if not p <= curp:
                        curp |= p
                        ch = True
                    continue
                if op in ("udiv", "urem", "sdiv", "srem"):
                    toks = RE_LOCAL.findall(text2)
                    t = set()
                    for v in toks:
                        t |= self.val_taint(fn, v)
                    divisor = text2.rsplit(",", 1)[1].strip()
                    if t and divisor.startswith("%"):
                        self.event("divrem", fn, label, text, t)
                    if res and self.set_taint(fn, res, frozenset(t)):
                        ch = True
                    continue
                if op == "select":
                    parts = split_top(text2[len("select"):].strip())
                    t = set()
                    p = set()
                    for part in parts:
                        for v in RE_LOCAL.findall(part):
                            t |= self.val_taint(fn, v)
                    for part in parts[1:]:
                        for v in RE_LOCAL.findall(part):
                            p |= self.val_pts(fn, v)
                        for g in RE_GLOBAL.findall(part):
                            p |= {(self.obj("global:" + g), 0)}
                    if res:
                        if self.set_taint(fn, res, frozenset(t)):
                            ch = True
                        if p and self.set_pts(fn, res, p):
                            ch = True
                        # a select between pointers under a secret condition makes the address secret
                        ct = set()
                        for v in RE_LOCAL.findall(parts[0]):
                            ct |= self.val_taint(fn, v)
                        if p and ct:
                            pass
                    continue
                if op == "phi":
                    t = set()
                    p = set()
                    for v in RE_LOCAL.findall(re.sub(r"label %" + NAME, "", text2)):
                        if v in f.blocks:
                            continue
                        t |= self.val_taint(fn, v)
                        p |= self.val_pts(fn, v)
                    for g in RE_GLOBAL.findall(text2):
                        p |= {(self.obj("global:" + g), 0)}
                    if res:
                        if self.set_taint(fn, res, frozenset(t)):
                            ch = True
                        if p and self.set_pts(fn, res, p):
                            ch = True
                    continue
                if op in ("unreachable", "fence", "resume"):
                    continue
                # generic: result depends on all operands; pointer-ness flows through casts / insertvalue
                if res:
                    t = set()
                    p = set()
                    for v in RE_LOCAL.findall(text2):
                        t |= self.val_taint(fn, v)
                        if op in ("bitcast", "inttoptr", "ptrtoint", "addrspacecast", "insertvalue", "extractvalue",
                                  "freeze", "insertelement", "extractelement", "shufflevector"):
                            p |= self.val_pts(fn, v)
                    if self.set_taint(fn, res, frozenset(t)):
                        ch = True
                    if p and self.set_pts(fn, res, p):
                        ch = True
        return ch

    def do_call(self, f, label, res, text):
        fn = f.name
        ch = False
        m = re.match(r"(?:call|invoke)\s+(.*?)@(" + NAME + r")\((.*)\)", text)
        if not m:
            # indirect call
            toks = RE_LOCAL.findall(text)
            t = set()
            for v in toks:
                t |= self.val_taint(fn, v)
            if t:
                self.event("indirect-call", fn, label, text, t)
            if res and self.set_taint(fn, res, frozenset(t)):
                ch = True
            return ch
        callee = m.group(2).strip('"')
        args = split_top(m.group(3))
        argtoks = []
        for a in args:
            toks = RE_LOCAL.findall(a)
            g = RE_GLOBAL.findall(a)
            argtoks.append(toks[-1] if toks else (g[-1] if g else None))
        if callee.startswith("llvm.memcpy") or callee.startswith("llvm.memmove"):
            dst, src, ln = argtoks[0], argtoks[1], argtoks[2]
            lt = self.val_taint(fn, ln) if ln and ln.startswith("%") else frozenset()
            if lt:
                self.event("memlen", fn, label, text, lt)
            const_len = None
            mm = re.search(r"i64 (\d+), i1", m.group(3))
            if mm:
                const_len = int(mm.group(1))
            for (so, soff) in (self.val_pts(fn, src) if src else ()):
                for (do, doff) in (self.val_pts(fn, dst) if dst else ()):
                    if const_len is not None and soff is not None and doff is not None and const_len <= 4096:
                        for k in range(0, const_len, 8):
                            if do.write(doff + k, so.read(soff + k, 8, (fn, label), self.reach), 8, (fn, label)):
                                ch = True
                    else:
                        if do.write(None, so.read(None, 8, (fn, label), self.reach), 8, (fn, label)):
                            ch = True
                    if so.ptrs and not so.ptrs <= do.ptrs:
                        do.ptrs |= so.ptrs
                        ch = True
            for tok in (dst, src):
                if tok and tok.startswith("%") and self.val_taint(fn, tok):
                    self.event("index", fn, label, text, self.val_taint(fn, tok))
            return ch
        if callee.startswith("llvm.memset"):
            dst, val, ln = argtoks[0], argtoks[1], argtoks[2]
            lt = self.val_taint(fn, ln) if ln and ln.startswith("%") else frozenset()
            if lt:
                self.event("memlen", fn, label, text, lt)
            vt = self.val_taint(fn, val) if val and val.startswith("%") else frozenset()
            for (do, doff) in (self.val_pts(fn, dst) if dst else ()):
                if do.write(None, vt, 8, (fn, label)):
                    ch = True
            return ch
        if callee.startswith("llvm.") or callee.startswith("_ZN6subtle9black_box"):
            t = set()
            p = set()
            for v in argtoks:
                if v and v.startswith("%"):
                    t |= self.val_taint(fn, v)
            if res and self.set_taint(fn, res, frozenset(t)):
                ch = True
            return ch
        if any(callee.startswith(a) or ("__rust_alloc" in callee) or ("__rust_realloc" in callee) for a in ("__rust_alloc",)) \
                or "__rust_alloc" in callee or "__rust_realloc" in callee:
            t = set()
            for v in argtoks:
                if v and v.startswith("%"):
                    t |= self.val_taint(fn, v)
            if t:
                self.event("memlen", fn, label, text, frozenset(t))
            o = self.obj("heap:%s:%s" % (fn, res))
            if res and self.set_pts(fn, res, {(o, 0)}):
                ch = True
            return ch
        if "__rust_dealloc" in callee:
            return False
        g = self.m.get(callee)
        if g is None:
            if is_panic_fn(callee):
                return False
            t = set()
            for v in argtoks:
                if v and v.startswith("%"):
                    t |= self.val_taint(fn, v)
                    for (o, off) in self.val_pts(fn, v):
                        t |= o.read(None, 8, (fn, label), self.reach)
            if t:
                self.event("unknown-external", fn, label, "call @" + callee, frozenset(t))
            self.unknown_ext.add(callee)
            if res and self.set_taint(fn, res, frozenset(t)):
                ch = True
            return ch
        if callee not in self.reached:
            self.reached.add(callee)
            ch = True
        for (pname, is_ptr), tok in zip(g.params, argtoks):
            if pname is None or tok is None:
                continue
            if tok.startswith("%"):
                if self.set_taint(callee, pname, self.val_taint(fn, tok)):
                    ch = True
                p = self.val_pts(fn, tok)
                if p and self.set_pts(callee, pname, p):
                    ch = True
            elif tok.startswith("@"):
                if self.set_pts(callee, pname, {(self.obj("global:" + tok), 0)}):
                    ch = True
        if res:
            if self.set_taint(fn, res, self.ret_taint.get(callee, frozenset())):
                ch = True
            rp = self.ret_pts.get(callee)
            if rp and self.set_pts(fn, res, rp):
                ch = True
        return ch


BOXED_PARAM_HINT = {}


def boxed_shapes(sig_params, sig):
    return {}


def analyse_wrapper(module, wname, info, sig_types):
    a = Analysis(module, wname, info["params"], info["shapes"])
    # heap-allocated operands: the header {ptr, len} is public, the limbs are secret
    f = module.get(wname)
    extra = len(f.params) - len(info["params"])
    names = [None] * max(extra, 0) + list(info["params"])
    for (pname, is_ptr), rname in zip(f.params, names):
        if rname and is_ptr and sig_types.get(rname, "").endswith("BoxedUint") and info["shapes"].get(rname) is None:
            o = a.obj("arg:" + rname)
            o.smear = frozenset()
            heap = a.obj("arg:" + rname + ".limbs")
            heap.smear = frozenset({SECRET})
            o.ptrs.add((heap, 0))
        if rname and is_ptr and "NonZero<BoxedUint>" in sig_types.get(rname, ""):
            o = a.obj("arg:" + rname)
            o.smear = frozenset()
            heap = a.obj("arg:" + rname + ".limbs")
            heap.smear = frozenset({SECRET})
            o.ptrs.add((heap, 0))
    ev = a.run()
    return a, ev


# ---------------------------------------------------------------------------------------------
# reporting


def demangle(sym):
    sym = sym.strip('"')
    if not sym.startswith("_ZN"):
        return sym
    i = 3
    parts = []
    while i < len(sym) and sym[i].isdigit():
        j = i
        while j < len(sym) and sym[j].isdigit():
            j += 1
        n = int(sym[i:j])
        parts.append(sym[j:j + n])
        i = j + n
    if parts and re.fullmatch(r"h[0-9a-f]{16}", parts[-1]):
        parts.pop()
    out = "::".join(parts)
    for a, b in (("$LT$", "<"), ("$GT$", ">"), ("$u20$", " "), ("$C$", ","), ("$RF$", "&"), ("$u5b$", "["), ("$u5d$", "]"),
                 ("$u7b$", "{"), ("$u7d$", "}"), ("$BP$", "*"), ("..", "::")):
        out = out.replace(a, b)
    return out.lstrip("_")


def norm_fn(sym):
    d = demangle(sym)
    d = re.sub(r"^w_u\d+_", "w_uN_", d)
    d = re.sub(r"<\d+_usize>", "<_>", d)
    return d


def run_ir(report, config="ir"):
    """Build the harness, analyse every wrapper, add instances to the report."""
    from .common import Instance
    lls, table = build_harness(facts.REPO)
    mod = Module(lls)
    with open(os.path.join(facts.WORK, "ctir-crate", "src", "lib.rs")) as fh:
        src = fh.read()
    report.counters["ir_wrappers"] = 0
    report.counters["ir_functions_indexed"] = len(mod.index)
    reached_total = set()
    unresolved_total = 0
    unknown_ext = set()
    for w in sorted(table):
        info = table[w]
        m = re.search(r"pub fn %s\((.*?)\)" % w, src)
        types = dict((a.split(":")[0].strip(), a.split(":", 1)[1].strip()) for a in split_top(m.group(1)) if ":" in a)
        a, ev = analyse_wrapper(mod, w, info, types)
        report.counters["ir_wrappers"] += 1
        reached_total |= a.reached
        unresolved_total += len(a.unresolved)
        unknown_ext |= a.unknown_ext
        leaks = {}
        guards = 0
        for (kind, fn, label, text), taint in ev.items():
            if kind == "abort-guard":
                guards += 1
                continue
            leaks.setdefault((kind, norm_fn(fn)), []).append("%s: %s" % (label, text[:70]))
        report.counters["ir_abort_guards"] = report.counters.get("ir_abort_guards", 0) + guards
        if a.unresolved:
            leaks.setdefault(("unresolved-pointer", norm_fn(w)), []).extend(
                "%s %s %s" % (norm_fn(f), l, t) for (f, l, t) in list(a.unresolved)[:3])
        wn = re.sub(r"^w_u\d+_", "w_uN_", w)
        if not leaks:
            report.add(Instance("c01.ir|%s|clean" % w, "c01.ir", "ok",
                                "auto: no secret-dependent branch, memory index, division operand, memory length or "
                                "unknown external in the optimised IR (%d functions reached, %d abort guards)" % (
                                    len(a.reached), guards), "ctir:" + w, {"wrapper": w}), config)
            continue
        for (kind, fn), sites in sorted(leaks.items()):
            key = "c01.ir|%s|%s|%s" % (wn, kind, fn)
            report.add(Instance(key, "c01.ir", "violation",
                                "optimised IR of wrapper `%s`: %s on a secret-dependent value in `%s` (%d site(s), e.g. %s)" % (
                                    w, kind, fn, len(sites), sites[0]), "ctir:" + w,
                                {"wrapper": w, "function": fn, "kind": kind, "sites": sites[:4],
                                 "expected_from_source_level_finding": info.get("known")}), config)
    report.counters["ir_functions_reached"] = len(reached_total)
    report.counters["ir_unresolved_pointer_loads"] = unresolved_total
    report.notes.append("IR tier: unknown externals treated as leaks when fed secrets: %s" % sorted(unknown_ext)[:6])
