from . import family

FAMS = {"mul", "square"}


def run(tier, t0):
    return family.run(
        "C03", tier, t0, FAMS,
        self_ok=lambda b: "modular::" not in (b.get("impl_self") or "") + b["id"],
        carry_prefixes=("uint::mul", "uint::boxed::mul", "limb::mul", "int::mul"),
        modes={"mul", "square"},
        rule_text=("multiplication / squaring outside the Montgomery forms: (a) every product depends on both factors; (b) the "
                   "is_some flag of checked_mul / checked_square depends on every factor; (c) inside the multiplication "
                   "modules every carry returned by a mac / adc / sbb-family call is consumed on every path or dropped at a "
                   "reviewed site (top limb of an exact double-width product); (d) operator and checked forms never forward "
                   "to a wrapping_ / saturating_ form except on Wrapping<T>"),
        explanation=("structural necessary conditions of C03: a product that ignores a factor, an overflow report that ignores "
                     "one, a dropped carry in the schoolbook / Karatsuba accumulation, and a panicking operator routed to a "
                     "wrapping form are wrong for some input. That every limb of a*b is exact (Karatsuba recombination, the "
                     "sign trick, squaring's doubling pass) is arithmetic and is not decided"),
        floors={"operations_checked_for_completeness": 60, "fallible_operations": 8, "carry_returning_calls_in_scope": 20,
                "operator_and_checked_forwarders": 20})
