from .. import facts
from ..common import Report, finish
from ..rules import c11, capguard

RULE = ("in the DER and RLP decode paths (TryFrom<AnyRef>, TryFrom<UintRef>, DecodeValue::decode_value, "
        "rlp::Decodable::decode and their closures): every copy of the attacker-sized integer bytes into the "
        "fixed-size buffer is dominated by an error-exit branch that compares the source length with the buffer "
        "length, and no explicit panic is guarded by a condition depending on the input")


def run(tier, t0):
    rep = Report("C18")
    f = facts.load("all")     # der / rlp exist only with their features
    capguard.run(f, rep, "all", scope="codec")
    c11.run_a(f, rep, "all", scope="codec")
    rep.floor("caller_sized_copies", 1)
    rep.floor("total_entry_points", 3)
    sib = [i.to_json() for i in rep.instances.values() if i.rule == "capguard"]
    return finish(rep, tier, t0,
                  explanation="fail-closed clause of C18 only (never a panic for an oversized encoding); canonical/"
                              "minimal encodings, rejection of negative or non-canonical input and round trips are "
                              "implemented inside the external der / rlp crates, which the analysis does not enter",
                  assumptions=["der::asn1::UintRef and rlp::Rlp deliver the integer bytes as a slice whose length is "
                               "the only attacker-controlled size", "external callees behave per analysis/externals.py"],
                  rule_text=RULE,
                  extra_cov={"sibling_cross_check": sib})
