from .. import facts
from ..common import Report, finish
from ..rules import gate, flags, c15

RULE = ("the `is_some` flag of every inversion (inv, inv_mod, inv_odd_mod, inv_mod2k, invert and their _vartime twins, on "
        "Uint, Int, BoxedUint, the three Montgomery forms and the inverter objects) depends, in the label-flow summary, on "
        "every operand: the value and the modulus / inverter")
INV = {"inv", "inv_mod", "inv_odd_mod", "inv_mod2k"}


def run(tier, t0):
    rep = Report("C10")
    for cfg in ("all", "default"):
        f = facts.load(cfg)
        gate.run(f, rep, cfg, lambda b, fam: fam in INV, "c10.gate", "inversion_operations")
        flags.run(f, rep, cfg, lambda b: c15.family(b.get("name")) in INV | {"gcd"})
    stale = {}
    for x in rep.stale:
        stale.setdefault(x["key"], set()).add(x["config"])
    rep.stale = sorted(k for k, v in stale.items() if len(v) == 2)
    rep.floor("inversion_operations", 36)
    rep.floor("validity_flag_calls", 4)
    return finish(rep, tier, t0,
                  explanation="one structural necessary condition of C10: whether an inverse exists depends on both the value "
                              "and the modulus (for a fixed modulus some values are invertible and some are not, and vice "
                              "versa), so a success flag that is constant or computed from one of them only is wrong for some "
                              "input. That the flag equals gcd(a, m) = 1 and that a*x = 1 (mod m) are number-theoretic value "
                              "facts and are not decided",
                  assumptions=["the label-flow engine over-approximates dependences (a missing dependence is real)"],
                  rule_text=RULE)
