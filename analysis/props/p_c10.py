from .. import facts
from ..common import Report, finish
from .. import flow
from ..common import load_table
from ..rules import gate, flags, c15, c06, docpanic, iterbound

RULE = ("the `is_some` flag of every inversion (inv, inv_mod, inv_odd_mod, inv_mod2k, invert and their _vartime twins, on "
        "Uint, Int, BoxedUint, the three Montgomery forms and the inverter objects) depends, in the label-flow summary, on "
        "every operand: the value and the modulus / inverter; c10.docpanic: a documented panic of an inversion / gcd routine "
        "exists in release builds; c10.dbgwidth: in the boxed inversion / gcd routines and the boxed safegcd helpers, the size "
        "of a heap-allocated operand is never related to another parameter by a debug assertion only; c10.iterbound: the divstep "
        "iteration bound is computed from the bit lengths of both operands (or of neither), never of one operand alone")
INV = {"inv", "inv_mod", "inv_odd_mod", "inv_mod2k"}


def run(tier, t0):
    rep = Report("C10")
    for cfg in ("all", "default"):
        f = facts.load(cfg)
        gate.run(f, rep, cfg, lambda b, fam: fam in INV, "c10.gate", "inversion_operations")
        flags.run(f, rep, cfg, lambda b: c15.family(b.get("name")) in INV | {"gcd"})
        docpanic.run(f, rep, cfg, lambda b: c15.family(b.get("name")) in INV | {"gcd"}, "c10.docpanic",
                     counter="documented_panics_inv_gcd")
        iterbound.run(f, rep, cfg)
        eng = flow.Engine(f, flow.Policy())
        eng.run_all(collect=False)
        rev = {e["key"]: e["reason"] for e in load_table("c10.toml").get("reviewed_dbgwidth", [])}
        c06.run_debug_width(f, rep, cfg, eng,
                            select=lambda b: c15.family(b.get("name")) in INV | {"gcd"} or "safegcd::boxed" in b["id"],
                            prefix="c10.dbgwidth", counter="boxed_inv_gcd_bodies", reviewed=rev, len_vs_any=True,
                            effect="a value of another precision is cut down or zero-extended without reduction (or the "
                                   "result is truncated to the value's precision): the routine returns some(x) with x not an "
                                   "inverse, or none for an invertible value, where the debug profile panics")
    stale = {}
    for x in rep.stale:
        stale.setdefault(x["key"], set()).add(x["config"])
    rep.stale = sorted(k for k, v in stale.items() if len(v) == 2)
    rep.floor("inversion_operations", 36)
    rep.floor("validity_flag_calls", 4)
    rep.floor("boxed_inv_gcd_bodies", 8)
    rep.floor("divstep_iteration_bounds", 2)
    return finish(rep, tier, t0,
                  explanation="one structural necessary condition of C10: whether an inverse exists depends on both the value "
                              "and the modulus (for a fixed modulus some values are invertible and some are not, and vice "
                              "versa), so a success flag that is constant or computed from one of them only is wrong for some "
                              "input. That the flag equals gcd(a, m) = 1 and that a*x = 1 (mod m) are number-theoretic value "
                              "facts and are not decided",
                  assumptions=["the label-flow engine over-approximates dependences (a missing dependence is real)"],
                  rule_text=RULE)
