import time
from .. import facts
from ..common import Report, finish
from ..rules.c12 import C12
from ..rules import byteorder
from .. import witness

RULE = ("every creation (aggregate in fn bodies and const initialisers), in-place mutation, reinterpreting "
        "cast, ctor-as-fn use and conjuring call of NonZero/Odd is (derived | constant | core-nonzero | "
        "gated by CtOption::new on the invariant predicate of the same value | dominated by a branch on it "
        "with the right polarity) or a reviewed site with unchanged provenance fingerprint; the inner field "
        "is private and no &mut access is exposed; le/be-named constructors call same-order decoders")


def run(tier, t0):
    rep = Report("C12")
    nb = 0
    for cfg in ("all", "default"):
        f = facts.load(cfg)
        nb += len(f.body_list)
        C12(f, rep, cfg).run()
        byteorder.run(f, rep, cfg, prop="C12", scope="wrappers")
    witness.run(rep)
    rep.floor("compile_fail_witnesses", 8)
    # a stale reviewed entry counts only if stale in every configuration
    stale = {}
    for s in rep.stale:
        stale.setdefault(s["key"], set()).add(s["config"])
    rep.stale = sorted(k for k, v in stale.items() if len(v) == 2)
    rep.floor("creation_sites", 60)          # 44 (all) + default-config sites counted today
    rep.floor("deref_impls_positive_control", 2)
    rep.floor("wrapper_fields", 2)
    return finish(rep, tier, t0,
                  explanation="MIR-level who-may-construct / who-may-mutate analysis of NonZero and Odd over "
                              "%d bodies in two feature configurations (--all-features, default); 32-bit cfg "
                              "code, test modules and external crate bodies are not analysed" % nb,
                  assumptions=["the invariant predicates (is_zero/is_nonzero/is_odd) compute what their names say",
                               "value-preserving callees listed in tables/c12_sites.toml preserve the value",
                               "subtle::CtOption::new / ConstCtOption::new gate the value by the choice"],
                  rule_text=RULE)
