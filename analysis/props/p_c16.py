from .. import facts
from ..common import Report, finish
from ..rules import byteorder, c16, capguard, signext, dbgsize, declen

RULE = ("(a) a function named for one byte order calls only same-order helpers; (b) the error word of every "
        "decode_hex_byte call and the overflow flag of every push_limb call reaches a branch or a CtOption choice; "
        "(c) fallible decoders with a precision parameter have a returning branch depending on input length and "
        "precision, and every copy of a parameter-derived slice into a buffer inside a fallible function is "
        "dominated by an error-exit guard comparing both lengths; (e) c16.signext: a value cast out of a signed primitive is "
        "widened into a generic-width integer only by the sign-extending Int::resize, never by a zero-padding constructor; (f) c16.dbgsize: the width requirement of a "
        "From<primitive> conversion is enforced in release builds, not only by a debug assertion; (g) c16.declen: the slice "
        "returned by serdect's buffer decoder (the only witness of how many bytes were decoded) is read, not dropped")


def run(tier, t0):
    rep = Report("C16")
    for cfg in ("all", "default"):
        f = facts.load(cfg)
        byteorder.run(f, rep, cfg, prop="C16", scope="all")
        eng = c16.run_b(f, rep, cfg)
        c16.run_c(f, rep, cfg, eng)
        c16.run_d(f, rep, cfg, eng)
        capguard.run(f, rep, cfg, scope="encoding")
        signext.run(f, rep, cfg, prefix="c16.signext")
        dbgsize.run(f, rep, cfg, prefix="c16.dbgsize", counter="primitive_conversions")
        declen.run(f, rep, cfg)
    rep.floor("byteorder_pairs", 100)
    rep.floor("error_word_sources", 6)
    rep.floor("precision_decoders", 1)
    rep.floor("generic_width_widenings_in_signed_cast_bodies", 4)
    rep.floor("primitive_conversions", 16)
    rep.floor("external_decode_calls", 2)
    return finish(rep, tier, t0,
                  explanation="byte-order naming rule over all call sites, label-flow of decoder error words to "
                              "decisions, and length-vs-capacity guards, in two feature configurations; positional "
                              "round-trip values and the nibble decoder's arithmetic are not decided",
                  assumptions=["function names state their byte order (crate convention)",
                               "external callees behave per analysis/externals.py"],
                  rule_text=RULE)
