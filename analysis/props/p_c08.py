from .. import facts
from ..common import Report, finish
from ..rules import c08, carry, complete, c15

RULE = ("(a) every write of a montgomery_form field (aggregate, store, &mut hand-out) of MontyForm / ConstMontyForm / "
        "BoxedMontyForm takes its value from a reducing producer, another form's representative, a select of such, a "
        "reduced constant/parameter field, or a documented raw API; (b) flow-sensitive reduction-level typestate over the "
        "boxed almost-Montgomery routines (AMM(x,y) -> min+1, AMM(x,x) -> 1, AMM(x,1) -> 0, conditional subtraction -> "
        "-1) reaches level 0 at every form store and at every routine documented fully reduced; (c) from_const_params "
        "copies each field from the constant of the same name; (d) inside src/modular/** the carry/borrow returned by "
        "adc/sbb/mac-family calls is never dropped; (e) operand completeness: the result of every Montgomery-form operation "
        "(C08) / exponentiation and linear-combination routine (C09) depends on every operand (base and exponent)")


def run(tier, t0, prop="C08"):
    rep = Report(prop)
    for cfg in ("all", "default"):
        f = facts.load(cfg)
        if prop == "C08":
            c08.run_a(f, rep, cfg)
            c08.run_c(f, rep, cfg)
            c08.run_params(f, rep, cfg)
        c08.run_b(f, rep, cfg)
        carry.run(f, rep, cfg)
        if prop == "C09":
            complete.run(f, rep, cfg, lambda b: (b.get("name") or "").startswith(("pow", "multi_exponentiate", "lincomb")),
                         "c09.complete", "exponentiation_routines", what="exponentiation / linear combination",
                         skip_param=lambda b, p, ty, nm: ty in ("bool", "u32", "usize"))
        else:
            complete.run(f, rep, cfg, lambda b: (c15.family(b.get("name")) in ("add", "sub", "neg", "mul", "square", "double",
                                                                                "retrieve", "inv", "div_by_2") or
                                                 (b.get("name") or "") in ("new", "retrieve", "as_montgomery")) and
                         "modular::" in ((b.get("impl_self") or "") + b["id"]) and "MontyForm" in (b.get("impl_self") or ""),
                         "c08.complete", "montgomery_operations", what="Montgomery-form operation",
                         skip_param=lambda b, p, ty, nm: ty in ("bool", "u32", "usize"))
    stale = {}
    for s in rep.stale:
        stale.setdefault(s["key"], set()).add(s["config"])
    rep.stale = sorted(k for k, v in stale.items() if len(v) == 2)
    if prop == "C08":
        rep.floor("montgomery_form_writes", 85)
        rep.floor("from_const_params_sites", 2)
        rep.floor("residue_parameter_fields", 12)
    rep.floor("reduction_level_obligations", 20)
    rep.floor("carry_returning_calls_in_modular", 20)
    rep.floor("boxed_monty_bodies_interpreted", 40)
    rep.floor("exponentiation_routines" if prop == "C09" else "montgomery_operations", 20)
    return finish(rep, tier, t0,
                  explanation="who-may-write analysis of the Montgomery representative in all three forms and an abstract "
                              "interpretation of reduction levels through the boxed almost-Montgomery multiplication, "
                              "squaring, exponentiation and linear-combination routines; `retrieve` = Z/mZ value, "
                              "parameter values and the AMM bounds themselves are numerical and not decided",
                  assumptions=["the three almost-Montgomery bounds documented in boxed_monty_form/mul.rs hold "
                               "(f(AMM(x,y)) <= min(f(x),f(y))+1, f(AMM(x,x)) <= 1, f(AMM(x,1)) = 0)",
                               "producers listed in tables/c08.toml return fully reduced values for reduced inputs",
                               "public entry points receive reduced representatives (the invariant being checked)"],
                  rule_text=RULE)
