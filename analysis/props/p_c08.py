from .. import facts
from ..common import Report, finish
from ..rules import c08, carry

RULE = ("(a) every write of a montgomery_form field (aggregate, store, &mut hand-out) of MontyForm / ConstMontyForm / "
        "BoxedMontyForm takes its value from a reducing producer, another form's representative, a select of such, a "
        "reduced constant/parameter field, or a documented raw API; (b) flow-sensitive reduction-level typestate over the "
        "boxed almost-Montgomery routines (AMM(x,y) -> min+1, AMM(x,x) -> 1, AMM(x,1) -> 0, conditional subtraction -> "
        "-1) reaches level 0 at every form store and at every routine documented fully reduced; (c) from_const_params "
        "copies each field from the constant of the same name; (d) inside src/modular/** the carry/borrow returned by "
        "adc/sbb/mac-family calls is never dropped")


def run(tier, t0, prop="C08"):
    rep = Report(prop)
    for cfg in ("all", "default"):
        f = facts.load(cfg)
        if prop == "C08":
            c08.run_a(f, rep, cfg)
            c08.run_c(f, rep, cfg)
        c08.run_b(f, rep, cfg)
        carry.run(f, rep, cfg)
    stale = {}
    for s in rep.stale:
        stale.setdefault(s["key"], set()).add(s["config"])
    rep.stale = sorted(k for k, v in stale.items() if len(v) == 2)
    if prop == "C08":
        rep.floor("montgomery_form_writes", 100)
        rep.floor("from_const_params_sites", 2)
    rep.floor("reduction_level_obligations", 20)
    rep.floor("carry_returning_calls_in_modular", 20)
    rep.floor("boxed_monty_bodies_interpreted", 40)
    return finish(rep, tier, t0,
                  explanation="who-may-write analysis of the Montgomery representative in all three forms and an abstract "
                              "interpretation of reduction levels through the boxed almost-Montgomery multiplication, "
                              "squaring, exponentiation and linear-combination routines; `retrieve` = Z/mZ value, "
                              "parameter values and the AMM bounds themselves are numerical and not decided",
                  assumptions=["the three almost-Montgomery bounds documented in boxed_monty_form/mul.rs hold "
                               "(f(AMM(x,y)) <= min(f(x),f(y))+1, f(AMM(x,x)) <= 1, f(AMM(x,1)) = 0)",
                               "producers listed in tables/c08.toml return fully reduced values for reduced inputs",
                               "public entry points receive reduced representatives (the invariant being checked)"],
                  rule_text=RULE)
