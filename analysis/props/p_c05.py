from . import family

FAMS = {"shl", "shr"}


def run(tier, t0):
    return family.run(
        "C05", tier, t0, FAMS,
        self_ok=lambda b: True,
        carry_prefixes=("uint::shl", "uint::shr", "uint::boxed::shl", "uint::boxed::shr", "limb::shl", "limb::shr",
                        "int::shl", "int::shr"),
        modes={"shl", "shr"},
        rule_text=("shifts in all forms: (a) every shifted value depends on the operand and on the shift amount; (b) the "
                   "is_some flag of the overflowing forms depends on the shift amount; (c) inside the shift modules the "
                   "shifted-out bit / carry returned by shl1 / shr1-family calls is consumed or dropped at a reviewed site; "
                   "(d) operator forms never forward to a wrapping_ form except on Wrapping<T>"),
        explanation=("structural necessary conditions of the shift half of C05: a result that ignores the shift amount or the "
                     "value, an overflow report that ignores the shift amount, a dropped inter-limb carry, an operator routed "
                     "to the wrapping form. That the result equals floor(x * 2^(+-s)) for every s (width of the shift ladder, "
                     "limb/bit split, sign fill) and every bit-query clause of C05 are value relations and are not decided"),
        floors={"operations_checked_for_completeness": 150, "fallible_operations": 12, "carry_returning_calls_in_scope": 4,
                "operator_and_checked_forwarders": 10})
