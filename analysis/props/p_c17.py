from .. import facts
from ..common import Report, finish
from ..rules import shlcmp

RULE = ("c17.shlcmp: no ordering comparison is decided on a left-shifted non-constant word whose shifted value has no other "
        "use (the bits shifted out of the top are lost). One clause only; it was added after a differential exploration found "
        "to_string_radix_vartime dropping leading digits")


def run(tier, t0):
    rep = Report("C17")
    for cfg in ("all", "default"):
        f = facts.load(cfg)
        shlcmp.run(f, rep, cfg)
    rep.floor("left_shifts_of_values", 60)
    return finish(rep, tier, t0,
                  explanation="one structural clause bearing on C17's 'formatting returns the canonical numeral': a comparison on a "
                              "truncating left shift answers for a different number once the operand is large enough. Everything "
                              "else in C17 — digit batching, the 2^BITS overflow boundary of parsing, canonical output, error "
                              "kinds — is numerical and is NOT decided; the overflow flag of push_limb is decided under C16",
                  assumptions=["MIR `Shl` / `Limb::shl` drop the shifted-out bits (they do: wrapping shift semantics for the value)"],
                  rule_text=RULE)
