from . import p_c08


def run(tier, t0):
    return p_c08.run(tier, t0, prop="C09")
