from .. import facts
from ..common import Report, finish
from ..rules import c11, c11c, capguard, widenlate, docpanic

RULE = ("(a) no explicit panic (core::panicking, Option/Result/CtOption/ConstCtOption unwrap/expect) reachable from a "
        "public operation that reports failure through its return type or is named checked_/overflowing_/"
        "saturating_/wrapping_/try_ is guarded by a condition that depends on the operation's argument values "
        "(NonZero/Odd parameters and operand widths excepted), unless reviewed; (b) copies of parameter-derived "
        "slices inside fallible functions are dominated by an error-exit guard comparing both lengths; (c) every "
        "BoxedUint construction guarantees at least one limb; (d) c11.widenlate: no unsigned add / mul / shl computed in a narrow type "
        "and widened afterwards; (e) c11.docpanic: every function documented to panic has a panic site that exists in release "
        "builds (not only debug assertions or compiler overflow checks)")


def run(tier, t0):
    rep = Report("C11")
    for cfg in ("all", "default"):
        f = facts.load(cfg)
        c11.run_a(f, rep, cfg)
        capguard.run(f, rep, cfg, scope="all")
        c11c.run(f, rep, cfg)
        widenlate.run(f, rep, cfg)
        docpanic.run(f, rep, cfg, lambda b: True, "c11.docpanic", counter="documented_panics_crate_wide")
    stale = {}
    for s in rep.stale:
        stale.setdefault(s["key"], set()).add(s["config"])
    rep.stale = sorted(k for k, v in stale.items() if len(v) == 2)
    rep.floor("total_entry_points", 400)
    rep.floor("panic_site_x_entry_pairs", 2400)
    rep.floor("boxed_uint_constructions", 6)
    rep.floor("caller_sized_copies", 1)
    rep.floor("narrow_arithmetic_sites", 600)
    rep.floor("documented_panics_crate_wide", 60)
    return finish(rep, tier, t0,
                  explanation="interprocedural label-flow (with implicit flows and immediate-guard semantics) of every "
                              "explicit panic site to the arguments of every option/result-returning public operation, "
                              "in two feature configurations; bounds checks, arithmetic overflow traps, non-termination, "
                              "internal debug assertions (listed as informational) and 'panics exactly when documented' "
                              "are not decided",
                  assumptions=["NonZero/Odd parameters are valid (decided by C12)",
                               "panics that depend only on operand widths/precisions are outside the property's "
                               "quantifier (admissible widths are fixed; mismatched boxed precisions may panic)",
                               "external callees behave per analysis/externals.py"],
                  rule_text=RULE)
