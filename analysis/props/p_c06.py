from .. import facts
from ..common import Report, finish
from ..rules import c06, subcmp

RULE = ("for every select-like implementation (conditional_select / ct_select / select / ct_assign / ct_swap / "
        "conditional_assign / conditional_negate / ConstChoice::select_*): every stored field of the result "
        "depends on both operands and the choice, field f takes from A.f / B.f, and nested selects receive "
        "(A-only, B-only, the incoming choice itself); predicates over two heap-allocated operands do not "
        "zip their limb iterators (truncation to the shorter operand) without comparing the lengths; c06.subcmp: no "
        "ordering routine (lt / gt / cmp / ct_* / partial_cmp / min / max) reaches its operands only through the result of "
        "a wrapped subtraction or addition (the wrapped difference does not determine the order)")


def run(tier, t0):
    rep = Report("C06")
    for cfg in ("all", "default"):
        f = facts.load(cfg)
        c06.run(f, rep, cfg)
        subcmp.run(f, rep, cfg)
    rep.floor("select_like_bodies", 40)
    rep.floor("boxed_binary_predicates", 5)
    rep.floor("comparison_routines_sliced", 40)
    rep.floor("zip_call_bodies_positive_control", 3)
    return finish(rep, tier, t0,
                  explanation="label-flow summaries (field-sensitive to depth 2) of every select-like body in two "
                              "feature configurations; order/equality/hash coherence and is_some semantics are "
                              "value facts and are not decided",
                  assumptions=["subtle's primitive ConditionallySelectable impls and the one-line word selects "
                               "compute a ^ (mask & (a ^ b)) correctly",
                               "external callees behave per analysis/externals.py"],
                  rule_text=RULE)
