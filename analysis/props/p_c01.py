from .. import facts
from ..common import Report, finish
from ..rules import c01

RULE = ("for every public entry point f (reachable pub fn or trait impl method; Display/Debug/serde/Hash and the "
        "explicit declassification conversions excluded): every leak event in f's call cone — SwitchInt that is not "
        "an abort guard or a Result/Option error exit, array/slice index, Div/Rem with non-constant divisor, "
        "declassification of Choice/ConstChoice/CtOption, secret handed to a variable-time external or to an "
        "in-crate *_vartime callee — depends only on f's public parameters: lengths/precisions, parameters named "
        "exponent_bits/bits_precision/..., Montgomery parameter objects, and for documented variable-time "
        "functions the operands their documentation names")


def run(tier, t0):
    rep = Report("C01")
    for cfg in ("all", "default"):
        f = facts.load(cfg)
        c01.run(f, rep, cfg)
    stale = {}
    for s in rep.stale:
        stale.setdefault(s["key"], set()).add(s["config"])
    rep.stale = sorted(k for k, v in stale.items() if len(v) == 2)
    if tier == "thorough" and facts.REPO == "/repo":
        from .. import ctir
        ctir.run_ir(rep)
        rep.floor("ir_wrappers", 200)
        rep.floor("ir_functions_reached", 100)
    rep.floor("entry_points", 3500)
    rep.floor("abort_guard_branches_skipped", 10)
    return finish(rep, tier, t0,
                  explanation="MIR-level (source-level) interprocedural label-flow of secret operands to control flow, "
                              "memory indices, hardware-division operands and variable-time callees for every public "
                              "entry point in two feature configurations, generic over LIMBS. The optimised machine code "
                              "is not analysed in this tier (whether LLVM turns a select into a branch is an assumption)",
                  assumptions=["hardware shifts, multiplies, lzcnt/tzcnt and the primitive integer methods of core are "
                               "constant-time (README caveat)", "the backend does not turn select-shaped code into "
                               "branches", "32-bit cfg code not analysed", "subtle behaves as documented",
                               "a plain Result/Option error exit and an abort guard leak only what the returned "
                               "discriminant / the documented precondition reveals"],
                  rule_text=RULE)
