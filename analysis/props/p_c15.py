from .. import facts
from ..common import Report, finish
from .. import flow
from ..rules import c15, c06

RULE = ("every branch-free body with 1..4 calls whose own name and exactly one resolved callee fall in an "
        "operation family must forward to the same or a compatible family (div/rem <- div_rem with the right "
        "tuple component, Montgomery operators <- *_mod), with the callee's receiver coming from the first "
        "operand and its argument from the second; c15.zip: no operation over two heap-allocated operands zips their limb "
        "iterators (stopping at the shorter operand) without an assertion comparing the two lengths — the sibling forms "
        "zero-extend, so a truncating form disagrees with them for operands of different precision")


def run(tier, t0):
    rep = Report("C15")
    nb = 0
    for cfg in ("all", "default"):
        f = facts.load(cfg)
        nb += len(f.body_list)
        c15.run(f, rep, cfg)
        c15.run_deep(f, rep, cfg)
        c15.run_siblings(f, rep, cfg)
        c15.run_modes(f, rep, cfg)
        c15.run_forest(f, rep, cfg)
        eng = flow.Engine(f, flow.Policy())
        eng.run_all(collect=False)
        c06.run_zip(f, rep, cfg, eng, scope=lambda b, view: True, prefix="c15.zip", counter="two_boxed_operand_bodies",
                    what="operation")
    stale = {}
    for s in rep.stale:
        stale.setdefault(s["key"], set()).add(s["config"])
    rep.stale = sorted(k for k, v in stale.items() if len(v) == 2)
    rep.floor("forwarders", 900)
    rep.floor("deep_forwarders", 5)
    rep.floor("vartime_sibling_pairs", 60)
    rep.floor("operator_and_checked_forwarders", 40)
    rep.floor("operator_forests", 30)
    rep.floor("two_boxed_operand_bodies", 150)
    return finish(rep, tier, t0,
                  explanation="forwarder family / operand-order / projection rule over %d MIR bodies in two "
                              "feature configurations; implementations (two or more family callees, branches, "
                              "loops) are not judged; boxed-vs-fixed and ct-vs-vartime result equality is not "
                              "decided" % nb,
                  assumptions=["a function's last path segment names the operation it performs (the crate's "
                               "naming convention)", "family tables in analysis/rules/c15.py"],
                  rule_text=RULE)
