from . import family

FAMS = {"div", "rem", "div_rem"}


def run(tier, t0):
    return family.run(
        "C02", tier, t0, FAMS,
        self_ok=lambda b: family.self_adt(b) != "int::Int" and not b["id"].startswith(("int::", "<int::")),
        carry_prefixes=("uint::div", "uint::boxed::div", "limb::div", "uint::div_limb"),
        rule_text=("unsigned division / remainder (Limb, Uint, BoxedUint and their Wrapping / Checked wrappers): (a) every "
                   "quotient / remainder result depends on the dividend and on the divisor (or reciprocal); (b) the is_some "
                   "flag of checked_div / checked_rem depends on the divisor; (c) inside the division modules every carry / "
                   "borrow returned by an adc / sbb / mac-family call is consumed on every path or dropped at a reviewed site "
                   "(the Knuth D6 add-back)"),
        explanation=("structural necessary conditions of C02: a quotient or remainder that ignores an operand, a zero-divisor "
                     "report that ignores the divisor, and a dropped borrow in the multiply-subtract / add-back chain are wrong "
                     "for some input whatever the arithmetic. That q = floor(n/d) and 0 <= r < d (reciprocal correctness, "
                     "quotient-digit estimation, the add-back condition) is arithmetic and is not decided; the div/rem "
                     "projection of div_rem and the agreement of forwarding routes are decided under C15"),
        floors={"operations_checked_for_completeness": 200, "fallible_operations": 5, "carry_returning_calls_in_scope": 20})
