from .. import facts
from ..common import Report, finish
from ..rules import c19, c19route

RULE = ("(a) every modular sampler (a `modulus` and an RNG parameter) reaches its successful return only through the passing "
        "edge of a branch on `candidate < modulus`, or forwards its modulus to one that does; (b) every "
        "try_random_bits_with_precision owns (or forwards to) a rejecting branch on bit_length, and on bits_precision for "
        "fixed-width types; (c) c19.route: a random constructor of a Montgomery form draws its residue from the random_mod family "
        "(rejection sampling), not by reducing a full-width random integer")


def run(tier, t0):
    rep = Report("C19")
    for cfg in ("all", "default"):
        f = facts.load(cfg)
        c19.run(f, rep, cfg)
        c19route.run(f, rep, cfg)
    rep.floor("modular_samplers", 5)
    rep.floor("bit_bounded_samplers", 3)
    rep.floor("random_residue_constructors", 1)
    return finish(rep, tier, t0,
                  explanation="two structural necessary conditions of C19: a rejection sampler that can return without the "
                              "`< modulus` comparison (or through its failing edge) returns out-of-range values; a bit-bounded "
                              "sampler without the length check does not fail when it must. Uniformity, the masks, which bytes "
                              "are requested, stream-consumption equality between fixed and boxed samplers, and the values "
                              "returned are runtime facts and are not decided; the random constructors of NonZero/Odd are "
                              "instances under C12",
                  assumptions=["`ct_lt` / `ct_gt` implement the mathematical order (C06, not decided there either)"],
                  rule_text=RULE)
