from .. import facts
from ..common import Report, finish
from ..rules import c19

RULE = ("(a) every modular sampler (a `modulus` and an RNG parameter) reaches its successful return only through the passing "
        "edge of a branch on `candidate < modulus`, or forwards its modulus to one that does; (b) every "
        "try_random_bits_with_precision owns (or forwards to) a rejecting branch on bit_length, and on bits_precision for "
        "fixed-width types; (c) Uint and BoxedUint implementations of one sampling method hand the RNG to the same core "
        "routine(s)")


def run(tier, t0):
    rep = Report("C19")
    for cfg in ("all", "default"):
        f = facts.load(cfg)
        c19.run(f, rep, cfg)
    rep.floor("modular_samplers", 5)
    rep.floor("bit_bounded_samplers", 3)
    rep.floor("fixed_boxed_sampler_pairs", 3)
    return finish(rep, tier, t0,
                  explanation="three structural necessary conditions of C19: a rejection sampler that can return without the "
                              "`< modulus` comparison (or through its failing edge) returns out-of-range values; a bit-bounded "
                              "sampler without the length check does not fail when it must; fixed and boxed samplers that read "
                              "the RNG in different routines need not consume the stream identically. Uniformity, the masks, "
                              "which bytes are requested, and the values returned are runtime facts and are not decided; the "
                              "random constructors of NonZero/Odd are instances under C12",
                  assumptions=["`ct_lt` / `ct_gt` implement the mathematical order (C06, not decided there either)",
                               "the shared core routines behave identically for both callers given equal arguments"],
                  rule_text=RULE)
