from .. import facts
from ..common import Report, finish
from ..rules import gate, carry, signext, dbgsize

RULE = ("(a) the `is_some` flag of Int's checked_add / checked_sub / checked_mul / checked_square / checked_neg / checked_div "
        "depends on every operand that decides overflow; (b) inside src/int, the overflow / carry flag returned by "
        "overflowing_add / overflowing_neg / carrying_neg / adc / sbb-family calls is consumed on every path (same rule as C04); "
        "(c) c13.signext: a value cast out of a signed primitive (`iN as uM`) is never widened into a generic-width integer by a "
        "zero-padding constructor / resize — only by the sign-extending Int::resize; "
        "(d) c13.dbgsize: the width requirement of a From<primitive> conversion is enforced in release builds, not only by a debug assertion")
FAMS = {"add", "sub", "mul", "square", "neg", "div", "rem"}


def run(tier, t0):
    rep = Report("C13")
    for cfg in ("all", "default"):
        f = facts.load(cfg)
        gate.run(f, rep, cfg, lambda b, fam: fam in FAMS and "int::Int<" in (b.get("impl_self") or b["id"]),
                 "c13.gate", "int_checked_operations")
        carry.run(f, rep, cfg, scope_prefix=("int::", "<int::"), table="c04.toml", auto_wrapping=True,
                  counter="carry_returning_calls_in_int", stale_check=False)
        signext.run(f, rep, cfg)
        dbgsize.run(f, rep, cfg, prefix="c13.dbgsize", counter="primitive_conversions")
    rep.stale = []
    rep.floor("int_checked_operations", 16)
    rep.floor("carry_returning_calls_in_int", 5)
    rep.floor("bodies_with_signed_to_unsigned_casts", 8)
    rep.floor("generic_width_widenings_in_signed_cast_bodies", 4)
    rep.floor("primitive_conversions", 16)
    return finish(rep, tier, t0,
                  explanation="two structural necessary conditions of C13: a two's-complement overflow report that is "
                              "constant or ignores an operand is wrong for some input, and an overflow flag that is computed "
                              "and dropped cannot be reported. That the flag is set exactly when the result leaves [MIN, MAX] "
                              "(sign-bit arithmetic, polarity, the MIN / -1 corner) is a value relation and is not decided",
                  assumptions=["the label-flow engine over-approximates dependences (a missing dependence is real)"],
                  rule_text=RULE)
