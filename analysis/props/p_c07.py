from .. import facts
from ..common import Report, finish
from ..rules import carry, c07

RULE = ("in the modular add / sub / neg / double / special-modulus mul / halving routines of Uint, BoxedUint and the "
        "Montgomery forms: (a) every carry / borrow returned by an adc / sbb / mac / shl1-family call is consumed on every path, "
        "or dropped at a reviewed site (C04's rule and table); (b) the result depends on every operand, including the modulus")


def run(tier, t0):
    rep = Report("C07")
    for cfg in ("all", "default"):
        f = facts.load(cfg)
        carry.run(f, rep, cfg, scope_prefix=None, table="c04.toml", auto_wrapping=False,
                  counter="carry_returning_calls_in_modular_routines", stale_check=False, body_filter=c07.in_scope)
        c07.run_completeness(f, rep, cfg)
    rep.stale = []
    rep.floor("carry_returning_calls_in_modular_routines", 30)
    rep.floor("modular_routines", 30)
    return finish(rep, tier, t0,
                  explanation="two structural necessary conditions of C07: the correction by p is decided by the carry / borrow "
                              "of the trial addition / subtraction, so a flag that is computed and dropped makes the result "
                              "non-canonical for operands near p; and a result that does not depend on the modulus at all "
                              "cannot be canonical for every p. That the result lies in [0, p) and is congruent to the "
                              "mathematical value (mask polarity, the special-modulus folding, HAC 14.47) is arithmetic and is "
                              "not decided; the reviewed reasons for the deliberate carry drops are assumed",
                  assumptions=["the label-flow engine over-approximates dependences (a missing dependence is real)",
                               "tables/c04.toml reviewed reasons are numerical arguments quoted from the source"],
                  rule_text=RULE)
