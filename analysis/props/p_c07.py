from .. import facts
from ..common import Report, finish
from .. import flow
from ..common import load_table
from ..rules import carry, c07, c06, widenlate

RULE = ("in the modular add / sub / neg / double / special-modulus mul / halving routines of Uint, BoxedUint and the "
        "Montgomery forms: (a) every carry / borrow returned by an adc / sbb / mac / shl1-family call is consumed on every path, "
        "or dropped at a reviewed site (C04's rule and table); (b) the result depends on every operand, including the modulus; "
        "(c) c07.dbgwidth: a boxed modular routine does not relate the sizes of its operands in a debug assertion only; "
        "(d) c07.widenlate: no unsigned add / mul is computed in the narrow word type and widened afterwards (the wide type must "
        "receive the operands, or `carry + 1` wraps for the modulus 2^BITS - MAX)")


def run(tier, t0):
    rep = Report("C07")
    for cfg in ("all", "default"):
        f = facts.load(cfg)
        carry.run(f, rep, cfg, scope_prefix=None, table="c04.toml", auto_wrapping=False,
                  counter="carry_returning_calls_in_modular_routines", stale_check=False, body_filter=c07.in_scope)
        c07.run_completeness(f, rep, cfg)
        widenlate.run(f, rep, cfg, select=c07.in_scope, prefix="c07.widenlate", counter="narrow_arithmetic_sites_modular")
        eng = flow.Engine(f, flow.Policy())
        eng.run_all(collect=False)
        rev = {e["key"]: e["reason"] for e in load_table("c04.toml").get("reviewed_dbgwidth", [])}
        c06.run_debug_width(f, rep, cfg, eng, select=lambda b: c07.in_scope(b) and b.get("vis") == "pub",
                            prefix="c07.dbgwidth", counter="boxed_modular_bodies", reviewed=rev,
                            effect="operands of different precision are processed over one operand's length: the result is "
                                   "not the canonical residue (e.g. -0 mod p returns p for a wider p), where the debug profile "
                                   "panics")
    rep.stale = []
    rep.floor("carry_returning_calls_in_modular_routines", 30)
    rep.floor("modular_routines", 30)
    rep.floor("boxed_modular_bodies", 5)
    rep.floor("narrow_arithmetic_sites_modular", 4)
    return finish(rep, tier, t0,
                  explanation="two structural necessary conditions of C07: the correction by p is decided by the carry / borrow "
                              "of the trial addition / subtraction, so a flag that is computed and dropped makes the result "
                              "non-canonical for operands near p; and a result that does not depend on the modulus at all "
                              "cannot be canonical for every p. That the result lies in [0, p) and is congruent to the "
                              "mathematical value (mask polarity, the special-modulus folding, HAC 14.47) is arithmetic and is "
                              "not decided; the reviewed reasons for the deliberate carry drops are assumed",
                  assumptions=["the label-flow engine over-approximates dependences (a missing dependence is real)",
                               "tables/c04.toml reviewed reasons are numerical arguments quoted from the source"],
                  rule_text=RULE)
