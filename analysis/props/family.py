"""Shared driver for the properties that are claimed through the family-scoped structural clauses only
(C02, C03, C05, C14): operand completeness, gate dependence, carry / flag discipline, overflow-mode agreement."""
from .. import facts, mir
from ..common import Report, finish
from ..rules import carry, c15, gate, complete, docpanic


def self_adt(b):
    return mir.adt_of_ty(b.get("impl_self") or "") or ""


def run(prop, tier, t0, fams, self_ok, carry_prefixes, rule_text, explanation, floors, modes=None, need_gate=True,
        extra=None):
    rep = Report(prop)
    lo = prop.lower()
    for cfg in ("all", "default"):
        f = facts.load(cfg)
        sel = lambda b: c15.family(b.get("name")) in fams and self_ok(b)
        complete.run(f, rep, cfg, sel, "%s.complete" % lo, "operations_checked_for_completeness",
                     what="operation of the %s family" % "/".join(sorted(fams)),
                     skip_param=lambda b, p, ty, nm: ty in ("bool",))
        docpanic.run(f, rep, cfg, sel, "%s.docpanic" % lo)
        if need_gate:
            gate.run(f, rep, cfg, lambda b, fam: fam in fams and self_ok(b), "%s.gate" % lo, "fallible_operations")
        if carry_prefixes:
            carry.run(f, rep, cfg, scope_prefix=tuple(carry_prefixes), table="c04.toml", auto_wrapping=True,
                      counter="carry_returning_calls_in_scope", stale_check=False)
        if modes:
            c15.run_modes(f, rep, cfg, prefix="%s.mode" % lo, families=modes, counter="operator_and_checked_forwarders")
        if extra:
            extra(f, rep, cfg)
    rep.stale = []
    for name, n in floors.items():
        rep.floor(name, n)
    return finish(rep, tier, t0, explanation=explanation,
                  assumptions=["the label-flow engine over-approximates dependences (a missing dependence is real; a present "
                               "one proves nothing)",
                               "tables/c04.toml reviewed carry drops: numerical reasons quoted from the source, assumed"],
                  rule_text=rule_text)
