from .. import facts
from ..common import Report, finish
from ..rules import carry, c06, c15, gate, complete, docpanic
from .. import flow, mir

RULE = ("(gate) the `is_some` flag of checked_add / checked_sub on Limb, Uint and BoxedUint depends on both operands; "
        "(zip) mixed-width arithmetic never zips the two operands' limbs without aborting on unequal lengths; (carry) "
        "the carry / borrow returned by every adc / sbb / mac / carrying_* / conditional_adc / conditional_sbb / "
        "overflowing_add / overflowing_sub call in the crate is consumed, or is dropped in a wrapping_* form (by "
        "definition) or at a reviewed site with a stated reason")


ARITH = {"add", "sub", "neg", "mul", "square"}


def _arith_scope(b, view):
    """routines of the add / sub / neg / mul families, or any body that runs a carry chain"""
    if c15.family(b.get("name")) in ARITH:
        return True
    for bi, t in view.calls():
        if not view.blocks[bi]["cleanup"] and carry.CARRY.match(mir.last_seg(mir.callee_decl(t)) or ""):
            return True
    return False


def run(tier, t0):
    rep = Report("C04")
    for cfg in ("all", "default"):
        f = facts.load(cfg)
        carry.run(f, rep, cfg, scope_prefix=None, exclude_prefix=("modular::", "<modular::"), table="c04.toml", auto_wrapping=True,
                  counter="carry_returning_calls_outside_modular")
        eng = flow.Engine(f, flow.Policy())
        eng.run_all(collect=False)
        gate.run(f, rep, cfg, lambda b, fam: fam in ("add", "sub", "neg") and "int::Int<" not in (b.get("impl_self") or b["id"]),
                 "c04.gate", "checked_add_sub_operations")
        complete.run(f, rep, cfg, lambda b: c15.family(b.get("name")) in ("add", "sub", "neg") and
                     "modular::" not in (b.get("impl_self") or "") + b["id"], "c04.complete",
                     "operations_checked_for_completeness", what="addition / subtraction / negation",
                     skip_param=lambda b, p, ty, nm: ty in ("bool",))
        docpanic.run(f, rep, cfg, lambda b: c15.family(b.get("name")) in ("add", "sub", "neg"), "c04.docpanic")
        c15.run_modes(f, rep, cfg, prefix="c04.mode", families={"add", "sub", "neg"}, counter="add_sub_operator_forwarders")
        c06.run_zip(f, rep, cfg, eng, scope=_arith_scope, prefix="c04.zip", counter="mixed_width_arithmetic_bodies",
                    require_eq=True, what="arithmetic routine")
    stale = {}
    for s in rep.stale:
        stale.setdefault(s["key"], set()).add(s["config"])
    rep.stale = sorted(k for k, v in stale.items() if len(v) == 2)
    rep.floor("carry_returning_calls_outside_modular", 230)
    rep.floor("mixed_width_arithmetic_bodies", 10)
    rep.floor("checked_add_sub_operations", 8)
    rep.floor("add_sub_operator_forwarders", 15)
    rep.floor("operations_checked_for_completeness", 100)
    rep.floor("documented_panics", 1)
    rep.floor("zip_call_bodies_positive_control", 3)
    return finish(rep, tier, t0,
                  explanation="one structural clause of C04 (and of the multi-limb parts of C03/C07): a carry that is computed "
                              "and silently dropped. That the consumed carries are combined correctly, and every value-level "
                              "statement of C04 (results mod 2^BITS, carry exactly when out of range), are numerical and not "
                              "decided",
                  assumptions=["the reviewed reasons for the deliberate drops (listed in tables/c04.toml) are numerical "
                               "arguments taken from the source comments; they are assumed, not checked"],
                  rule_text=RULE)
