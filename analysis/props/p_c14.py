from . import family

FAMS = {"div", "rem", "div_rem"}


def run(tier, t0):
    return family.run(
        "C14", tier, t0, FAMS,
        self_ok=lambda b: family.self_adt(b) == "int::Int" or b["id"].startswith("int::"),
        carry_prefixes=(),
        rule_text=("signed division in all flavours: (a) every quotient / remainder depends on the dividend and on the "
                   "divisor; (b) the is_some flag of Int's checked_div family depends on the divisor and, for signed / signed "
                   "division, on the dividend (MIN / -1 does not fit)"),
        explanation=("structural necessary conditions of C14: a signed quotient or remainder that ignores an operand, and a "
                     "'none' report that ignores the divisor — or, for signed / signed division, the dividend, which alone "
                     "distinguishes MIN / -1 — are wrong for some input. The sign conventions (truncating vs flooring, sign of "
                     "the remainder), n = q*d + r and |r| < |d| are value relations and are not decided; forwarding and the "
                     "div/rem projections are decided under C15"),
        floors={"operations_checked_for_completeness": 40, "fallible_operations": 6})
