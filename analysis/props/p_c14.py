from . import family
from ..rules import c14

FAMS = {"div", "rem", "div_rem"}


def run(tier, t0):
    return family.run(
        "C14", tier, t0, FAMS,
        self_ok=lambda b: family.self_adt(b) == "int::Int" or b["id"].startswith("int::"),
        carry_prefixes=(),
        rule_text=("signed division in all flavours: (a) every quotient / remainder depends on the dividend and on the "
                   "divisor; (b) the is_some flag of Int's checked_div family depends on the divisor and, for signed / signed "
                   "division, on the dividend (MIN / -1 does not fit); (c) c14.remsign: the choice under which the remainder is "
                   "negated is built from the dividend's sign alone in the truncating flavours and from the divisor's sign alone "
                   "in the flooring flavours; (d) c14.remwidth: a remainder modulo an unsigned divisor of independent width is "
                   "not reinterpreted as a signed integer of the divisor's width; (e) c14.reminv: every flooring correction (quotient + 1, "
                   "remainder := |d| - r) is gated by the remainder's non-zero test"),
        explanation=("structural necessary conditions of C14: a signed quotient or remainder that ignores an operand, and a "
                     "'none' report that ignores the divisor — or, for signed / signed division, the dividend, which alone "
                     "distinguishes MIN / -1 — are wrong for some input; whose sign the remainder takes is decided by shape (c), "
                     "and the representability of a mixed-width remainder by types (d). The quotient adjustment, n = q*d + r and "
                     "|r| < |d| themselves are value relations and are not decided; forwarding and the div/rem projections are "
                     "decided under C15"),
        floors={"operations_checked_for_completeness": 40, "fallible_operations": 6, "signed_remainder_negations": 8,
                "mixed_width_remainder_reinterpretations": 2,
                "floor_corrections": 8},
        extra=lambda f, rep, cfg: (c14.run(f, rep, cfg), c14.run_reminv(f, rep, cfg)))
