"""Shared plumbing: keys, tables, known findings, reports, evidence, exit protocol."""
import json
import os
import re
import sys
import time
import tomllib

VERIF = os.path.dirname(os.path.dirname(os.path.abspath(__file__)))
TABLES = os.path.join(VERIF, "tables")
# evidence is only ever written for /repo itself; runs against scratch copies (selftest) go elsewhere
EVIDENCE = os.path.join(VERIF, "evidence") if os.environ.get("CBV_REPO", "/repo") == "/repo" \
    else os.path.join(VERIF, "work", "scratch-evidence")
REPLAY = os.path.join(VERIF, "work", "replay") if os.environ.get("CBV_REPO", "/repo") == "/repo" \
    else os.path.join(VERIF, "work", "scratch-replay")
KNOWN = os.path.join(VERIF, "known_findings.json")

_ARG = re.compile(r"<([^<>]*)>")


def _norm_args(m):
    parts = [p.strip() for p in m.group(1).split(",")]
    if parts and all(re.fullmatch(r"_|\d+|[A-Z][A-Z0-9_]*|'[a-z_]+", p) for p in parts):
        return "<_>"
    return "⟨" + m.group(1) + "⟩"


def norm_id(s):
    """Erase const-generic values / all-caps generic parameter names from a def path, so that the
    per-size instantiations of one macro arm share a key and renaming a parameter changes nothing."""
    if s is None:
        return None
    prev = None
    out = re.sub(r"#dup\d+", "", s)
    out = re.sub(r"\{[^{}]*\}", "_", out)   # unexpanded const expressions of macro-generated impls
    out = re.sub(r"&'[a-z_]+ ", "&", out)     # named lifetimes
    while prev != out:
        prev = out
        out = _ARG.sub(_norm_args, out)
    return out.replace("⟨", "<").replace("⟩", ">").replace("::<_>", "<_>")


def load_table(name):
    p = os.path.join(TABLES, name)
    with open(p, "rb") as fh:
        return tomllib.load(fh)


def load_known(prop):
    if not os.path.exists(KNOWN):
        return {}
    with open(KNOWN) as fh:
        data = json.load(fh)
    out = {}
    for e in data.get("findings", []):
        if e.get("property") == prop and e.get("status") == "open":
            out[e["key"]] = e
    return out


class Instance:
    __slots__ = ("key", "rule", "verdict", "how", "site", "detail", "configs")

    def __init__(self, key, rule, verdict, how, site, detail=None):
        self.key = key
        self.rule = rule
        self.verdict = verdict  # 'ok' | 'reviewed' | 'violation' | 'info'
        self.how = how          # discharge rule / reason
        self.site = site        # file:line (diagnostic only, never part of the key)
        self.detail = detail or {}
        self.configs = set()

    def to_json(self):
        return {"key": self.key, "rule": self.rule, "verdict": self.verdict, "how": self.how,
                "site": self.site, "detail": self.detail, "configs": sorted(self.configs)}


class Report:
    def __init__(self, prop):
        self.prop = prop
        self.instances = {}
        self.counters = {}
        self.notes = []
        self.fatal = []      # fail-closed diagnostics (missing anchors, floors)
        self.notes_table = {}
        self.stale = []

    def add(self, inst, config=None):
        cur = self.instances.get(inst.key)
        if cur is None:
            self.instances[inst.key] = inst
            cur = inst
        else:
            # the same key seen again (other config / other per-size instantiation): keep the worst
            order = {"violation": 3, "reviewed": 2, "ok": 1, "info": 0}
            if order[inst.verdict] > order[cur.verdict]:
                inst.configs |= cur.configs
                self.instances[inst.key] = inst
                cur = inst
            cur.detail["multiplicity"] = cur.detail.get("multiplicity", 1) + 1
        if config:
            cur.configs.add(config)

    def count(self, name, n=1):
        self.counters[name] = self.counters.get(name, 0) + n

    def floor(self, name, minimum):
        have = self.counters.get(name, 0)
        if have < minimum:
            self.fatal.append("floor: %s = %d < %d (rule would pass vacuously)" % (name, have, minimum))

    def require(self, cond, msg):
        if not cond:
            self.fatal.append(msg)


def finish(report, tier, t0, explanation, assumptions, rule_text, extra_cov=None, seed=0):
    """Write evidence, print KNOWN-FINDING / VIOLATION lines, return exit code."""
    prop = report.prop
    seed = int(os.environ.get("VERIF_SEED", seed) or 0)
    if tier == "thorough" and os.environ.get("CBV_REPO", "/repo") == "/repo":
        from . import selftest
        st = selftest.run(prop)
        bn = selftest.run_benign(prop)
        extra_cov = dict(extra_cov or {}, selftest=st, selftest_benign=bn)
        for m in bn:
            if m["outcome"] == "FALSE-ALARM":
                report.fatal.append("selftest: behaviour-preserving refactoring %s makes the %s check raise an alarm: %s" % (
                    m["patch"], prop, m.get("reported")))
            report.counters["selftest_benign_" + m["outcome"].lower().replace("-", "_")] = \
                report.counters.get("selftest_benign_" + m["outcome"].lower().replace("-", "_"), 0) + 1
        for m in st:
            if m["outcome"] == "MISSED":
                report.fatal.append("selftest: seeded mutation %s is not reported by the %s check (expected key containing "
                                    "%s)" % (m["patch"], prop, m["expect_key_contains"]))
            report.counters["selftest_" + m["outcome"].lower().replace("-", "_")] = \
                report.counters.get("selftest_" + m["outcome"].lower().replace("-", "_"), 0) + 1
    known = load_known(prop)
    os.makedirs(EVIDENCE, exist_ok=True)
    os.makedirs(REPLAY, exist_ok=True)
    for old in os.listdir(REPLAY):
        if old.startswith(prop + "-"):
            os.unlink(os.path.join(REPLAY, old))
    insts = list(report.instances.values())
    viol = [i for i in insts if i.verdict == "violation"]
    unknown_viol = [i for i in viol if i.key not in known]
    known_viol = [i for i in viol if i.key in known]
    used_known = {i.key for i in known_viol}
    stale_known = [k for k in known if k not in used_known]
    exit_code = 0
    for i in known_viol:
        print("KNOWN-FINDING: property=%s %s [%s]" % (prop, known[i.key].get("what_fails", i.how), i.key))
    n = 0
    for i in unknown_viol:
        n += 1
        path = os.path.join(REPLAY, "%s-%d.json" % (prop, n))
        with open(path, "w") as fh:
            json.dump(i.to_json(), fh, indent=1)
        print("VIOLATION property=%s replay=%s" % (prop, path))
        print("  rule=%s key=%s\n  site=%s\n  why=%s" % (i.rule, i.key, i.site, i.how))
        exit_code = 1
    for msg in report.fatal:
        n += 1
        path = os.path.join(REPLAY, "%s-%d.json" % (prop, n))
        with open(path, "w") as fh:
            json.dump({"fatal": msg}, fh)
        print("VIOLATION property=%s replay=%s" % (prop, path))
        print("  fail-closed: %s" % msg)
        exit_code = 1
    by_verdict = {}
    for i in insts:
        by_verdict[i.verdict] = by_verdict.get(i.verdict, 0) + 1
    decided = [i for i in insts if i.verdict != "info"]
    samples = []
    seen_rules = {}
    for i in sorted(insts, key=lambda x: (x.verdict != "violation", x.verdict != "reviewed", x.key)):
        if seen_rules.get((i.rule, i.verdict), 0) < 3 and len(samples) < 24:
            samples.append(i.to_json())
            seen_rules[(i.rule, i.verdict)] = seen_rules.get((i.rule, i.verdict), 0) + 1
    cov = {
        "explanation": explanation,
        "rule": rule_text,
        "evaluations": len(insts),
        "distinct_nontrivial": len(decided),
        "obligations": len(decided),
        "discharged": len(decided) - len(unknown_viol),
        "discharge_split": {
            "auto": by_verdict.get("ok", 0),
            "reviewed": by_verdict.get("reviewed", 0),
            "known_finding": len(known_viol),
            "violation": len(unknown_viol),
            "informational": by_verdict.get("info", 0),
        },
        "counters": report.counters,
        "samples": samples,
        "known_findings_matched": sorted(used_known),
        "known_findings_not_reproduced": sorted(stale_known),
        "stale_table_entries": report.stale,
        "notes": report.notes,
        "derived_tables": report.notes_table,
        "fail_closed": report.fatal,
        "checker_cmd": "/verif/check %s --tier %s" % (prop, tier),
        "trusted_base": ["rustc nightly type checker / trait resolution / MIR construction",
                         "the /verif driver's serialisation of MIR", "reviewed tables under /verif/tables"],
    }
    if extra_cov:
        cov.update(extra_cov)
    ev = {
        "property_id": prop,
        "tier": tier,
        "seed": seed,
        "level": "other",
        "coverage": cov,
        "assumptions": assumptions,
        "wall_s": round(time.time() - t0, 2),
        "violations": len(unknown_viol) + len(report.fatal),
    }
    with open(os.path.join(EVIDENCE, "%s.json" % prop), "w") as fh:
        json.dump(ev, fh, indent=1, sort_keys=True)
    print("%s: %d instances (%s), %d unlisted violations, %d known findings, %.1fs" % (
        prop, len(insts), ", ".join("%s=%d" % kv for kv in sorted(by_verdict.items())),
        len(unknown_viol) + len(report.fatal), len(known_viol), time.time() - t0))
    return exit_code
