"""Thorough tier: negative controls. Every mutation patch for the property is applied to a scratch
copy of /repo's working tree (outside /repo and /verif, removed afterwards), the property's quick
check is re-run on the copy in a subprocess, and it must report the seeded instance."""
import concurrent.futures
import json
import os
import shutil
import subprocess
import tempfile

from . import facts

MUT = os.path.join(facts.VERIF, "selftest", "mutations")


def _one(prop, m):
    d = tempfile.mkdtemp(prefix="cbv-selftest-")
    try:
        subprocess.check_call(["rsync", "-a", "--exclude", "target", "--exclude", ".git", facts.REPO + "/", d + "/"])
        p = subprocess.run(["patch", "-p1", "-s", "--no-backup-if-mismatch", "-i", os.path.join(MUT, m["patch"])], cwd=d,
                           stdout=subprocess.PIPE, stderr=subprocess.STDOUT, text=True)
        if p.returncode != 0:
            return dict(m, outcome="patch-does-not-apply", detail=p.stdout[-300:])
        env = dict(os.environ, CBV_REPO=d)
        r = subprocess.run(["python3", "-m", "analysis.main", prop, "--tier", "quick"], cwd=facts.VERIF, env=env,
                           stdout=subprocess.PIPE, stderr=subprocess.STDOUT, text=True)
        keys = [l.split("key=", 1)[1].strip() for l in r.stdout.splitlines() if "key=" in l]
        hit = [k for k in keys if m["expect_key_contains"] in k]
        if hit:
            return dict(m, outcome="detected", reported=hit[:3], other_reports=len(keys) - len(hit))
        return dict(m, outcome="MISSED", reported=keys[:5], tail=r.stdout[-400:])
    finally:
        shutil.rmtree(d, ignore_errors=True)


BENIGN = os.path.join(facts.VERIF, "selftest", "benign")


def _benign(prop, patch):
    d = tempfile.mkdtemp(prefix="cbv-benign-")
    try:
        subprocess.check_call(["rsync", "-a", "--exclude", "target", "--exclude", ".git", facts.REPO + "/", d + "/"])
        p = subprocess.run(["patch", "-p1", "-s", "--no-backup-if-mismatch", "-i", os.path.join(BENIGN, patch)], cwd=d,
                           stdout=subprocess.PIPE, stderr=subprocess.STDOUT, text=True)
        if p.returncode != 0:
            return {"patch": patch, "kind": "benign", "outcome": "patch-does-not-apply"}
        env = dict(os.environ, CBV_REPO=d)
        r = subprocess.run(["python3", "-m", "analysis.main", prop, "--tier", "quick"], cwd=facts.VERIF, env=env,
                           stdout=subprocess.PIPE, stderr=subprocess.STDOUT, text=True)
        keys = [l.split("key=", 1)[1].strip() for l in r.stdout.splitlines() if "key=" in l]
        if r.returncode == 0 and "VIOLATION" not in r.stdout:
            return {"patch": patch, "kind": "benign", "outcome": "silent"}
        return {"patch": patch, "kind": "benign", "outcome": "FALSE-ALARM", "reported": keys[:5], "tail": r.stdout[-300:]}
    finally:
        shutil.rmtree(d, ignore_errors=True)


def run_benign(prop):
    idx = os.path.join(BENIGN, "index.json")
    if not os.path.exists(idx):
        return []
    with open(idx) as fh:
        patches = json.load(fh).get("per_property", {}).get(prop, [])
    if not patches:
        return []
    with concurrent.futures.ThreadPoolExecutor(max_workers=min(5, len(patches))) as ex:
        return list(ex.map(lambda p: _benign(prop, p), patches))


def run(prop):
    idx = os.path.join(MUT, "index.json")
    if not os.path.exists(idx):
        return []
    with open(idx) as fh:
        muts = [m for m in json.load(fh) if m["property"] == prop]
    if not muts:
        return []
    with concurrent.futures.ThreadPoolExecutor(max_workers=min(6, len(muts))) as ex:
        return list(ex.map(lambda m: _one(prop, m), muts))
