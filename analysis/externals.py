"""Reviewed dependence models of external (non-crate) callees for the label-flow engine.

Each model maps argument values to (result value, {1-based arg index: value written through it},
extra events). Anything not listed gets the engine's conservative default: the result depends on
every argument and every `&mut` argument may be overwritten with anything derived from them.
"""
from .common import norm_id
from .flow import Val, scalar, v_flat, v_len, v_join, v_materialise, LEN, EMPTY
from . import mir


def _all(argvals):
    f = set()
    n = set()
    for v in argvals:
        f |= v_flat(v)
        n |= v_len(v)
    return frozenset(f), frozenset(n)


def m_len(view, t, av):
    return scalar(v_len(av[0]) if av else EMPTY), {}, ()


def m_identity(view, t, av):
    return (av[0] if av else Val()), {}, ()


def m_pure(view, t, av):
    f, n = _all(av)
    return Val({(): f, LEN: n}), {}, ()


def m_diverge(view, t, av):
    return Val(), {}, ()


def m_alloc_from_elem(view, t, av):
    # vec![elem; n]
    elem = av[0] if av else Val()
    n = av[1] if len(av) > 1 else Val()
    return Val({(): v_flat(elem), LEN: v_flat(n) | v_len(elem)}), {}, ()


def m_alloc_cap(view, t, av):
    return Val(), {}, ()


def m_write0(view, t, av):
    """arg0 (&mut) receives everything from the other arguments; result unit/opaque."""
    f = set()
    for v in av[1:]:
        f |= v_flat(v)
    f |= v_flat(av[0]) if av else EMPTY
    return scalar(frozenset(f)), {1: Val({(): frozenset(f)})}, ()


def m_write1(view, t, av):
    f, n = _all(av)
    return scalar(f), {2: Val({(): f})}, ()


def m_swap(view, t, av):
    f, n = _all(av)
    return Val(), {1: Val({(): f}), 2: Val({(): f})}, ()


def m_index(view, t, av):
    """slice/array indexing through a function: address depends on the index argument."""
    base = av[0] if av else Val()
    idx = av[1] if len(av) > 1 else Val()
    ev = ()
    if v_flat(idx):
        ev = (("index", v_flat(idx), {"what": "index via %s" % mir.last_seg(mir.callee_name(t))}),)
    return Val({(): v_flat(base) | v_flat(idx), LEN: v_len(base) | v_flat(idx)}), {}, ev


def m_iter(view, t, av):
    # iterators over a slice: same content, same shape
    return (v_materialise(av[0]) if av else Val()), {}, ()


EXACT = {
    "core::slice::<impl [T]>::len": m_len,
    "core::slice::<impl [T]>::is_empty": m_len,
    "alloc::vec::Vec<_>::len": m_len,
    "alloc::vec::Vec<_>::is_empty": m_len,
    "core::str::<impl str>::len": m_len,
    "core::str::<impl str>::is_empty": m_len,
    "core::iter::ExactSizeIterator::len": m_len,
    "alloc::vec::from_elem": m_alloc_from_elem,
    "alloc::vec::Vec<_>::with_capacity": m_alloc_cap,
    "alloc::vec::Vec<_>::new": m_alloc_cap,
    "alloc::vec::Vec<_>::push": m_write0,
    "core::slice::<impl [T]>::copy_from_slice": m_write0,
    "core::slice::<impl [T]>::clone_from_slice": m_write0,
    "core::slice::<impl [T]>::fill": m_write0,
    "subtle::ConditionallySelectable::conditional_assign": m_write0,
    "subtle::ConditionallySelectable::conditional_swap": m_swap,
    "core::mem::swap": m_swap,
    "rand_core::TryRngCore::try_fill_bytes": m_write1,
    "rand_core::RngCore::fill_bytes": m_write1,
    "core::slice::<impl [T]>::split_at": m_index,
    "core::slice::<impl [T]>::split_at_mut": m_index,
    "core::slice::<impl [T]>::get": m_index,
    "core::slice::<impl [T]>::get_mut": m_index,
    "core::slice::index::<impl core::ops::Index<_> for [T]>::index": m_index,
    "core::slice::index::<impl core::ops::IndexMut<_> for [T]>::index_mut": m_index,
    "<alloc::vec::Vec<_> as core::ops::Index<_>>::index": m_index,
    "<alloc::vec::Vec<_> as core::ops::IndexMut<_>>::index_mut": m_index,
    "core::array::<impl core::ops::Index<_> for [T; N]>::index": m_index,
    "core::array::<impl core::ops::IndexMut<_> for [T; N]>::index_mut": m_index,
    "core::slice::<impl [T]>::iter": m_iter,
    "core::slice::<impl [T]>::iter_mut": m_iter,
    "core::slice::<impl [T]>::first": m_iter,
    "core::slice::<impl [T]>::last": m_iter,
    "core::str::<impl str>::as_bytes": m_identity,
    "core::str::<impl str>::bytes": m_iter,
    "alloc::slice::<impl [T]>::into_vec": m_identity,
    "alloc::slice::<impl [T]>::to_vec": m_identity,
    "alloc::vec::Vec<_>::into_boxed_slice": m_identity,
    "alloc::vec::Vec<_>::as_mut_slice": m_identity,
    "alloc::vec::Vec<_>::as_slice": m_identity,
    "<I as core::iter::IntoIterator>::into_iter": m_identity,
    "core::iter::Iterator::rev": m_identity,
    "core::iter::Iterator::copied": m_identity,
    "core::iter::Iterator::cloned": m_identity,
    "core::convert::identity": m_identity,
}

IDENTITY_SEGS_BY_TRAIT = {
    ("core::clone::Clone", "clone"), ("core::ops::Deref", "deref"), ("core::ops::DerefMut", "deref_mut"),
    ("core::borrow::Borrow", "borrow"), ("core::borrow::BorrowMut", "borrow_mut"),
    ("core::convert::AsRef", "as_ref"), ("core::convert::AsMut", "as_mut"),
    ("alloc::borrow::ToOwned", "to_owned"),
}

PURE_PREFIXES = ("core::num::", "subtle::", "<subtle::", "core::fmt::", "core::cmp::", "<u8 as ", "<u16 as ",
                 "<u32 as ", "<u64 as ", "<u128 as ", "<usize as ", "<i8 as ", "<i64 as ", "<i32 as ", "<bool as ",
                 "core::convert::num::", "core::option::Option", "core::result::Result", "<core::result::Result",
                 "<core::option::Option", "core::ops::Range", "<core::cmp::Ordering", "core::hint::",
                 "core::iter::range::", "core::char::", "core::intrinsics::")
DIVERGE_PREFIXES = ("core::panicking::", "core::option::expect_failed", "core::result::unwrap_failed",
                    "core::slice::index::slice_", "alloc::alloc::handle_alloc_error", "core::hint::unreachable_unchecked")


def m_iter_next(view, t, av):
    """`next` on an iterator over a slice (possibly through rev/zip/map/copied/enumerate/chunks adaptors):
    whether an item exists depends on the remaining length only, the item on the content."""
    a0 = av[0] if av else Val()
    out = Val({("#d",): v_len(a0), ("0",): v_flat(a0), LEN: v_len(a0)})
    shape = _item_shape((t["f"].get("self") or ""))
    if shape == "enumerate":
        # item = (position, element): the position counts the items taken so far and depends on lengths only
        # (third path component: keeps the two tuple fields apart — flow.v_read merges *exactly* depth-2 siblings)
        out = Val({("#d",): v_len(a0), ("0", "0", "#pos"): v_len(a0), ("0", "1", "#item"): v_flat(a0), LEN: v_len(a0)})
    return out, {}, ()


_ITEM_PRESERVING = ("Rev<", "Skip<", "Take<", "Fuse<")


def _item_shape(st):
    """'enumerate' when the iterator type's items are `(usize, T)` pairs produced by `Enumerate` (looking through
    adaptors that keep the item type)."""
    st = st.strip()
    while st.startswith("&"):
        st = st[1:].lstrip()
        if st.startswith("mut "):
            st = st[4:].lstrip()
    for _ in range(6):
        seg = st.split("<", 1)[0].rsplit("::", 1)[-1] + "<"
        if seg == "Enumerate<":
            return "enumerate"
        if seg in _ITEM_PRESERVING and "<" in st:
            st = st.split("<", 1)[1]
            continue
        break
    return None


def model(view, t, argvals):
    name = mir.callee_name(t)
    if name is None:
        return None
    n = norm_id(name)
    f0 = t["f"]
    if f0.get("trait") in ("core::iter::Iterator", "core::iter::DoubleEndedIterator") and \
            mir.last_seg(f0["decl"]) in ("next", "next_back"):
        st = f0.get("self") or ""
        data_dependent = any(x in st for x in ("SkipWhile", "TakeWhile", "Filter", "MapWhile", "Scan", "FlatMap", "Flatten",
                                               "Peekable", "StepBy", "Fuse"))
        plain_range = ("core::ops::Range" in st or "core::iter::range" in name or "Step" in st) and \
            not any(x in st for x in ("Zip", "Rev<core::slice", "Enumerate<core::slice", "Map<core::slice"))
        if not plain_range and not data_dependent:
            return m_iter_next(view, t, argvals)
    m = EXACT.get(n)
    if m is not None:
        return m(view, t, argvals)
    f = t["f"]
    tr = f.get("trait")
    seg = mir.last_seg(f["decl"])
    if tr and (tr, seg) in IDENTITY_SEGS_BY_TRAIT:
        return m_identity(view, t, argvals)
    for p in DIVERGE_PREFIXES:
        if name.startswith(p):
            return m_diverge(view, t, argvals)
    return None
