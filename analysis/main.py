"""Entry point: python3 -m analysis.main <property id> [--tier quick|thorough] [--replay file]"""
import argparse
import importlib
import json
import os
import sys
import time

from . import facts
from .common import Report, finish

PROPS = {
    "C01": "analysis.props.p_c01",
    "C02": "analysis.props.p_c02",
    "C03": "analysis.props.p_c03",
    "C04": "analysis.props.p_c04",
    "C05": "analysis.props.p_c05",
    "C06": "analysis.props.p_c06",
    "C07": "analysis.props.p_c07",
    "C08": "analysis.props.p_c08",
    "C09": "analysis.props.p_c09",
    "C10": "analysis.props.p_c10",
    "C11": "analysis.props.p_c11",
    "C12": "analysis.props.p_c12",
    "C13": "analysis.props.p_c13",
    "C14": "analysis.props.p_c14",
    "C15": "analysis.props.p_c15",
    "C16": "analysis.props.p_c16",
    "C17": "analysis.props.p_c17",
    "C18": "analysis.props.p_c18",
    "C19": "analysis.props.p_c19",
}


def main():
    ap = argparse.ArgumentParser()
    ap.add_argument("prop")
    ap.add_argument("--tier", default=os.environ.get("VERIF_TIER", "quick"))
    ap.add_argument("--replay")
    a = ap.parse_args()
    if a.replay:
        with open(a.replay) as fh:
            print(json.dumps(json.load(fh), indent=1))
        return 0
    if a.prop not in PROPS:
        print("unknown property %s" % a.prop)
        return 2
    mod = importlib.import_module(PROPS[a.prop])
    t0 = time.time()
    try:
        return mod.run(a.tier, t0)
    except Exception as e:  # fail closed
        import traceback
        traceback.print_exc()
        os.makedirs(os.path.join(facts.WORK, "replay"), exist_ok=True)
        p = os.path.join(facts.WORK, "replay", "%s-crash.json" % a.prop)
        with open(p, "w") as fh:
            json.dump({"fatal": "checker crashed: %r" % (e,)}, fh)
        print("VIOLATION property=%s replay=%s" % (a.prop, p))
        return 1


if __name__ == "__main__":
    sys.exit(main())
