"""E2 — label-flow engine (DESIGN.md §2.2).

A forward, flow-sensitive, field-sensitive (depth 2) may-dependence analysis over the MIR facts,
with bottom-up function summaries over the call graph's SCCs.

Labels are opaque strings. Parameter i of the body under analysis contributes the symbolic labels
  '@i'        everything reachable from the parameter (content)
  '@i.f.g'    the sub-value at field path f.g (depth <= 2)
  '@i#len'    its length / shape metadata (slice length, BoxedUint limb count)
Summaries are expressed in these labels and instantiated at call sites by substitution.

A value is (tree, syms): tree maps field paths (tuples, depth <= 2, plus the special path LEN) to
label sets; syms is a set of (param, prefix) meaning "this value is (also) the caller's original
sub-value of parameter `param` at `prefix`" — kept symbolic so that field reads stay precise.
"""
from . import mir

LEN = ("#len",)
DEPTH = 2
EMPTY = frozenset()


# ---------------------------------------------------------------------------------------------
# values


class Val:
    __slots__ = ("t", "s")

    def __init__(self, t=None, s=EMPTY):
        self.t = t if t is not None else {}
        self.s = s

    def copy(self):
        return Val(dict(self.t), self.s)

    def is_empty(self):
        return not self.s and not any(self.t.values())

    def __eq__(self, o):
        return self.s == o.s and _clean(self.t) == _clean(o.t)

    def __repr__(self):
        return "Val(%s,%s)" % ({k: sorted(v) for k, v in self.t.items() if v}, sorted(self.s))


def _clean(t):
    return {k: v for k, v in t.items() if v}


def _is_constantish(v):
    if v.s:
        return False
    for p, ls in v.t.items():
        if p != LEN and any(l[0] == "@" for l in ls):
            return False
    return True


def scalar(labels):
    return Val({(): frozenset(labels)}) if labels else Val()


def sym_label(i, path):
    return "@%d%s" % (i, "".join("." + f for f in path[:DEPTH]))


def v_len(v):
    out = set(v.t.get(LEN, EMPTY))
    for (i, pre) in v.s:
        out.add("@%d#len" % i)
    return frozenset(out)


def v_read(v, path):
    """Labels of the sub-value at `path` (content only)."""
    if path == LEN:
        return v_len(v)
    out = set()
    path = path[:DEPTH]
    n = len(path)
    for p, ls in v.t.items():
        if p == LEN or not ls:
            continue
        m = len(p)
        if m <= n:
            if p == path[:m]:
                out |= ls
            elif n == DEPTH and m == DEPTH and p[0] == path[0]:
                out |= ls       # second-level paths are not reliable (see v_sub)
        elif p[:n] == path:
            out |= ls
    for (i, pre) in v.s:
        out.add(sym_label(i, pre + path))
    return frozenset(out)


def v_flat(v):
    return v_read(v, ())


def v_sub(v, path):
    """Re-root the value at `path`."""
    if not path:
        return v
    path = path[:DEPTH]
    n = len(path)
    t = {}
    for p, ls in v.t.items():
        if not ls:
            continue
        if p == LEN:
            t[LEN] = t.get(LEN, EMPTY) | ls
            continue
        m = len(p)
        if m <= n:
            if p == path[:m]:
                t[()] = t.get((), EMPTY) | ls
            elif n == DEPTH and m == DEPTH and p[0] == path[0]:
                # sibling at the second level: the second component of a truncated path is whatever came after the
                # first field (a Box internal `pointer`, an element's `.0`, a real field), and writers and readers of
                # one slice disagree on it. Field sensitivity is kept at the first level only.
                t[()] = t.get((), EMPTY) | ls
        elif p[:n] == path:
            q = p[n:]
            t[q] = t.get(q, EMPTY) | ls
    s = frozenset((i, (pre + path)[:DEPTH + 2]) for (i, pre) in v.s)
    return Val(t, s)


def v_join(a, b):
    if a is b:
        return a
    if a is None:
        return b
    if b is None:
        return a
    t = dict(a.t)
    for p, ls in b.t.items():
        if ls:
            cur = t.get(p)
            t[p] = (cur | ls) if cur else ls
    return Val(t, a.s | b.s)


def v_leq(a, b):
    """a ⊑ b"""
    if not a.s <= b.s:
        return False
    for p, ls in a.t.items():
        if ls and not ls <= b.t.get(p, EMPTY):
            return False
    return True


def v_materialise(v):
    """Turn symbolic identities into plain labels at the root (used when a value is stored below the
    root of another value)."""
    if not v.s:
        return v
    t = dict(v.t)
    root = set(t.get((), EMPTY))
    ln = set(t.get(LEN, EMPTY))
    for (i, pre) in v.s:
        root.add(sym_label(i, pre))
        ln.add("@%d#len" % i)
    t[()] = frozenset(root)
    t[LEN] = frozenset(ln)
    return Val(t, EMPTY)


def v_write(base, path, new, strong):
    """Return base with `new` stored at `path`."""
    path = tuple(path)
    if not path:
        if strong:
            return new
        return v_join(base, new)
    new = v_materialise(new)
    deep = len(path) > DEPTH
    path = path[:DEPTH]
    t = dict(base.t)
    if strong and not deep and not base.s:
        n = len(path)
        for p in list(t.keys()):
            if p != LEN and len(p) >= n and p[:n] == path:
                del t[p]
    for q, ls in new.t.items():
        if not ls:
            continue
        if q == LEN:
            t[LEN] = t.get(LEN, EMPTY) | ls
            continue
        np = (path + q)[:DEPTH]
        t[np] = t.get(np, EMPTY) | ls
    return Val(t, base.s)


def v_map(v, fn):
    """Apply fn(labelset)->labelset to every label set (used for substitution)."""
    t = {}
    for p, ls in v.t.items():
        if ls:
            r = fn(ls, p)
            if r:
                t[p] = r
    return Val(t, EMPTY)


def _outer_only(trait_ref):
    """`<A<..> as Tr<B<..>>>` with every generic argument list of A and B collapsed to <_>."""
    import re
    m = re.match(r"^<(.*) as ([A-Za-z_:]+)<(.*)>>$", trait_ref)
    if not m:
        return trait_ref

    def outer(t):
        t = t.strip()
        pre = ""
        while t.startswith("&"):
            pre += "&"
            t = t[1:].lstrip()
            t = re.sub(r"^'[a-z_{}]+ ?", "", t)
            if t.startswith("mut "):
                pre += "mut "
                t = t[4:]
        i = t.find("<")
        if i >= 0 and not t.startswith("["):
            return pre + t[:i] + "<_>"
        return pre + t
    return "<%s as %s<%s>>" % (outer(m.group(1)), m.group(2), outer(m.group(3)))


def _split_args(g):
    import re
    g = re.sub(r"/#\d+", "", g.strip())
    g = g.replace(", alloc::alloc::Global", "")
    g = re.sub(r"(\d+)_usize", r"\1", g)
    g = re.sub(r"'\{erased\} ?", "", g)
    g = re.sub(r"'[a-z_]+ ", "", g)
    if g.startswith("[") and g.endswith("]"):
        g = g[1:-1]
    out = []
    depth = 0
    cur = ""
    for c in g:
        if c in "<([":
            depth += 1
        elif c in ">)]":
            depth -= 1
        if c == "," and depth == 0:
            out.append(cur.strip())
            cur = ""
        else:
            cur += c
    if cur.strip():
        out.append(cur.strip())
    # strip lifetimes / erased regions
    return [a for a in out if not a.startswith("'")]


# ---------------------------------------------------------------------------------------------
# summaries


class Summary:
    __slots__ = ("ret", "outs", "events", "complete")

    def __init__(self):
        self.ret = Val()
        self.outs = {}      # param index (1-based) -> Val written through that &mut parameter
        self.events = {}    # (kind, sink) -> (labels, info)
        self.complete = False

    def leq(self, o):
        if not v_leq(self.ret, o.ret):
            return False
        for k, v in self.outs.items():
            if k not in o.outs or not v_leq(v, o.outs[k]):
                return False
        for k, (ls, _) in self.events.items():
            if k not in o.events or not ls <= o.events[k][0]:
                return False
        return True


class Event:
    __slots__ = ("kind", "sink", "labels", "info", "bb", "via")

    def __init__(self, kind, sink, labels, info=None, bb=None, via=()):
        self.kind = kind
        self.sink = sink      # stable key of the place where the event physically happens
        self.labels = labels
        self.info = info or {}
        self.bb = bb
        self.via = via        # call chain from the analysed body to the sink


# ---------------------------------------------------------------------------------------------


class Policy:
    """Hooks a rule module overrides."""

    propagate_kinds = ()
    keep_empty_kinds = ()     # event kinds that are meaningful even with an empty label set
    guarded_kinds = ()        # event kinds whose labels are extended by the labels of controlling branches
    guard_mode = "all"        # 'all' controlling branches, or only the 'immediate' ones
    implicit_flows = False    # values assigned under a branch also depend on the branch condition

    def param_init(self, view, i):
        """Initial value of parameter local i (1-based). Default: fully symbolic."""
        return Val({}, frozenset({(i, ())}))

    def external(self, engine, view, bb, term, argvals):
        """Model of a callee without an in-crate body. Return (ret Val, {arg index: Val written}, events)
        or None for the conservative default."""
        from . import externals
        return externals.model(view, term, argvals)

    def filter_event(self, kind, labels, info):
        """Drop labels that are irrelevant for this rule (e.g. public ones). Return labels to keep."""
        return labels

    def call_hook(self, engine, view, bb, term, argvals, callee_ids):
        """Chance to emit events for a call (e.g. declassification points)."""
        return ()

    def on_call_event(self, callee_id, kind, sink, labels, info, view, bb, term):
        """Re-anchor or drop a callee event when it crosses a call boundary. Return (sink, info) or None."""
        return sink, info

    def want_body(self, b):
        return True

    def post_call(self, engine, view, bb, term, ret, argvals):
        """Adjust the value a call returns (e.g. to inject a source label)."""
        return ret


class Engine:
    def __init__(self, facts, policy):
        self.facts = facts
        self.policy = policy
        self.views = {}
        self.summaries = {}
        self.trait_impls = {}
        self.by_id = facts.bodies
        for b in facts.body_list:
            if b["kind"] not in ("Fn", "AssocFn", "Closure"):
                continue
            tr = b.get("impl_trait") or b.get("in_trait")
            if tr and b.get("name"):
                self.trait_impls.setdefault((tr, b["name"]), []).append(b["id"])
        self._alias_cache = {}
        self.sink_ord = {}
        from .common import norm_id
        self._norm = norm_id
        self.conv_impls = {}
        self.self_impls = {}
        for b in facts.body_list:
            if b["kind"] != "AssocFn" or not b.get("impl_trait"):
                continue
            if b["impl_trait"] in ("core::convert::From", "core::convert::TryFrom") and b.get("impl_trait_ref"):
                self.conv_impls.setdefault((b["name"], norm_id(b["impl_trait_ref"])), []).append(b["id"])
                self.conv_impls.setdefault((b["name"], _outer_only(b["impl_trait_ref"])), []).append(b["id"])
            self.self_impls.setdefault((b["impl_trait"], b["name"], norm_id(b.get("impl_self") or "")), []).append(b["id"])

    # ---- helpers -----------------------------------------------------------------------------
    def view(self, bid):
        v = self.views.get(bid)
        if v is None:
            v = mir.BodyView(self.by_id[bid])
            self.views[bid] = v
        return v

    def callee_ids(self, term):
        """In-crate bodies a call may dispatch to ([] = external/unknown)."""
        f = term["f"]
        if "indirect" in f:
            return []
        res = f.get("res")
        if res and res in self.by_id:
            return [res]
        decl = f["decl"]
        if res is None and f.get("trait"):
            seg = mir.last_seg(decl)
            ids = self.trait_impls.get((f["trait"], seg), [])
            return list(ids)
        if decl in self.by_id:
            return [decl]
        return self.dispatch_external(term)

    _CMP_DISPATCH = {
        "core::cmp::PartialOrd": {"lt": "partial_cmp", "le": "partial_cmp", "gt": "partial_cmp", "ge": "partial_cmp",
                                  "partial_cmp": "partial_cmp"},
        "core::cmp::PartialEq": {"eq": "eq", "ne": "eq"},
        "core::cmp::Ord": {"min": "cmp", "max": "cmp", "clamp": "cmp", "cmp": "cmp"},
    }

    def dispatch_external(self, term):
        """External generic shims that call back into an in-crate trait impl (`.into()`, `a < b` on
        references, `min`/`max`): return the in-crate bodies they end up in."""
        f = term["f"]
        decl = f["decl"]
        tr = f.get("trait")
        seg = mir.last_seg(decl)
        if decl in ("core::convert::Into::into", "core::convert::TryInto::try_into"):
            parts = _split_args(f.get("gargs") or "")
            if len(parts) == 2:
                src, dst = parts
                trn = "core::convert::From" if seg == "into" else "core::convert::TryFrom"
                meth = "from" if seg == "into" else "try_from"
                full = "<%s as %s<%s>>" % (dst, trn, src)
                ids = self.conv_impls.get((meth, self._norm(full)))
                if not ids:
                    ids = self.conv_impls.get((meth, _outer_only(full)), [])
                return list(ids)
            return []
        if tr in self._CMP_DISPATCH and seg in self._CMP_DISPATCH[tr]:
            st = mir.peel_refs(f.get("self") or "")
            return list(self.self_impls.get((tr, self._CMP_DISPATCH[tr][seg], self._norm(st)), []))
        return []

    def _accessor_paths(self, term):
        """[(param index, field path)] when every in-crate callee of the call is a pure accessor: its summary returns
        nothing but a pointer into one of its arguments"""
        ids = self.callee_ids(term)
        if not ids:
            return None
        out = set()
        for c in ids:
            sm = self.summaries.get(c)
            if sm is None or not getattr(sm, "complete", False):
                return None
            if not sm.ret.s or any(ls for pth, ls in sm.ret.t.items() if pth != LEN and ls):
                return None
            for (k, path) in sm.ret.s:
                out.add((k, tuple(path)))
        return sorted(out)

    def aliases(self, view):
        """local -> set of (target local, field path) it may point to (flow-insensitive)."""
        key = view.id
        if key in self._alias_cache:
            return self._alias_cache[key]
        al = {}
        locs = view.locals
        holders = set()

        def resolve(place):
            l, proj = place
            cur = {(l, ())}
            for e in proj:
                nxt = set()
                if e == "*":
                    for (x, p) in cur:
                        if not p and al.get(x):
                            nxt |= al[x]
                        else:
                            nxt.add((x, p))
                elif e[0] == "f":
                    for (x, p) in cur:
                        if not p and mir.is_ptr_ty(locs[x]) and al.get(x):
                            nxt |= al[x]   # navigating inside a pointer wrapper (Box internals)
                        elif not p and mir.is_ptr_ty(locs[x]) and locs[x].startswith(("alloc::boxed::Box<", "core::ptr::")):
                            nxt.add((x, p))
                        else:
                            nxt.add((x, (p + (e[2],))[:DEPTH]))
                else:
                    nxt = cur
                cur = nxt
            return cur

        changed = True
        it = 0
        while changed and it < 10:
            changed = False
            it += 1
            for bb in view.blocks:
                for s in bb["stmts"]:
                    if s[0] != "a" or s[1][1]:
                        continue
                    d = s[1][0]
                    rv = s[2]
                    if rv[0] == "agg" and not mir.is_ptr_ty(locs[d]):
                        # a struct/tuple/closure holding pointers aliases what they point to
                        src = set()
                        for o in rv[4]:
                            if o[0] in ("c", "m") and not o[1][1] and mir.is_ptr_ty(locs[o[1][0]]):
                                src |= al.get(o[1][0]) or {(o[1][0], ())}
                            elif o[0] in ("c", "m") and o[1][0] in holders:
                                src |= al.get(o[1][0]) or set()
                        if src:
                            holders.add(d)
                            cur = al.setdefault(d, set())
                            if not src <= cur:
                                cur |= src
                                changed = True
                        continue
                    if not mir.is_ptr_ty(locs[d]):
                        # a pointer-holding value moved / copied into another local keeps what it points to
                        if rv[0] == "use" and rv[1][0] in ("c", "m") and not rv[1][1][1] and rv[1][1][0] in holders:
                            src = al.get(rv[1][1][0]) or set()
                            if d not in holders:
                                holders.add(d)
                                changed = True
                            cur = al.setdefault(d, set())
                            if not src <= cur:
                                cur |= src
                                changed = True
                        continue
                    src = None
                    if rv[0] in ("ref", "rawptr"):
                        src = resolve(rv[2])
                    elif rv[0] == "use" and rv[1][0] in ("c", "m"):
                        pl = rv[1][1]
                        if not pl[1]:
                            src = al.get(pl[0]) or ({(pl[0], ())} if mir.is_ptr_ty(locs[pl[0]]) else None)
                        elif pl[0] in holders and "*" not in pl[1]:
                            # a pointer taken out of a pointer-holding value (iterator item, tuple of refs)
                            src = set(al.get(pl[0]) or ()) or resolve(pl)
                        else:
                            src = resolve(pl)
                    elif rv[0] == "cfd":
                        src = resolve(rv[1])
                    elif rv[0] == "cast" and rv[2][0] in ("c", "m"):
                        pl = rv[2][1]
                        if not pl[1]:
                            src = al.get(pl[0]) or ({(pl[0], ())} if mir.is_ptr_ty(locs[pl[0]]) else None)
                        else:
                            src = resolve(pl)
                    if src:
                        cur = al.setdefault(d, set())
                        if not src <= cur:
                            cur |= src
                            changed = True
                t = bb["term"]
                if t["k"] == "call" and not t["dst"][1] and (mir.is_ptr_ty(locs[t["dst"][0]]) or
                                                             "<'" in locs[t["dst"][0]] or "&" in locs[t["dst"][0]]):
                    d = t["dst"][0]
                    if not mir.is_ptr_ty(locs[d]):
                        holders.add(d)
                    src = set()
                    acc = self._accessor_paths(t)
                    if acc is not None:
                        # a pointer-returning accessor (`as_limbs_mut`, `as_ref`, ...): the result points into the
                        # argument's pointee at the path its summary names
                        for (k, path) in acc:
                            if k - 1 < len(t["args"]) and t["args"][k - 1][0] in ("c", "m") and not t["args"][k - 1][1][1]:
                                a0 = t["args"][k - 1][1][0]
                                for (x, p2) in (al.get(a0) or {(a0, ())}):
                                    src.add((x, (tuple(p2) + tuple(path))[:DEPTH]))
                        if src:
                            cur = al.setdefault(d, set())
                            if not src <= cur:
                                cur |= src
                                changed = True
                            continue
                    for a in t["args"]:
                        if a[0] in ("c", "m") and mir.is_ptr_ty(locs[a[1][0]]) and not a[1][1]:
                            tg = al.get(a[1][0]) or {(a[1][0], ())}
                            src |= tg
                            for (x, p2) in list(tg):
                                if not p2 and x in holders:      # `&mut iterator`: what the iterator points to
                                    src |= al.get(x) or set()
                        elif a[0] in ("c", "m") and not a[1][1] and a[1][0] in holders:
                            src |= al.get(a[1][0]) or set()      # iterator adaptors taking a pointer-holder by value
                    if src:
                        cur = al.setdefault(d, set())
                        if not src <= cur:
                            cur |= src
                            changed = True
        self._alias_cache[key] = (al, resolve, holders)
        return al, resolve, holders

    # ---- per body analysis ----------------------------------------------------------------------
    def analyze(self, bid, collect=False):
        """Run the dataflow on one body. Returns (Summary, events list if collect)."""
        view = self.view(bid)
        b = view.b
        pol = self.policy
        al, resolve, holders = self.aliases(view)
        nloc = len(view.locals)
        argc = view.argc
        init = {}
        for i in range(1, argc + 1):
            init[i] = pol.param_init(view, i)
        order = view.rpo()
        in_state = {0: init}
        events = []
        ev_seen = set()
        blocks = view.blocks
        switch_labels = {}
        cur_ctrl = [None]

        def read_place(st, place, want_events, bi, idx):
            l, proj = place
            if want_events:
                for il in mir.index_locals(proj):
                    ls = v_flat(st.get(il, Val()))
                    emit("index", bi, idx, ls, {"what": "index by _%d" % il})
            if not proj:
                return st.get(l) or Val()
            locs = resolve(place)
            out = None
            for (x, p) in locs:
                v = st.get(x)
                if v is None:
                    continue
                out = v_join(out, v_sub(v, p))
            # a pointer local also carries its own snapshot
            if mir.has_deref(proj):
                own = st.get(l)
                if own is not None and (l, ()) not in locs:
                    out = v_join(out, v_sub(own, mir.field_path(proj)))
            return out or Val()

        def write_place(st, place, val, bi, idx, want_events):
            l, proj = place
            if want_events:
                for il in mir.index_locals(proj):
                    ls = v_flat(st.get(il, Val()))
                    emit("index", bi, idx, ls, {"what": "index by _%d (store)" % il})
            if not proj:
                st[l] = val
                return
            locs = resolve(place)
            if holders:
                extra = set()
                for (x, p) in locs:
                    if x in holders:
                        extra |= al.get(x, set())
                if extra - locs:
                    locs = locs | extra
            direct = not mir.has_deref(proj) and not mir.index_locals(proj) and \
                not any(e != "*" and e[0] in ("ci", "ss") for e in proj)
            for (x, p) in locs:
                base = st.get(x) or Val()
                st[x] = v_write(base, p, val, strong=(direct and len(locs) == 1))
            if mir.has_deref(proj) and (l, ()) not in locs:
                base = st.get(l) or Val()
                st[l] = v_write(base, mir.field_path(proj), val, strong=False)

        def eval_op(st, op, bi, idx, want_events):
            if op[0] == "k":
                if op[3] and op[4] and ("Fn" in op[4] or "Ctor" in op[4]) and op[5] is None and \
                        op[1].startswith(("fn(", "for<", "unsafe fn(", "extern ", "const fn(")):
                    return scalar({"fn:" + op[3]})
                return Val()
            return read_place(st, op[1], want_events, bi, idx)

        def emit(kind, bi, idx, labels, info):
            if not collect:
                return
            keep_empty = kind in pol.keep_empty_kinds
            if not labels and not keep_empty:
                return
            labels = pol.filter_event(kind, labels, info) if labels else labels
            if not labels and not keep_empty:
                return
            labels = frozenset(labels)
            k0 = (bid, kind)
            sink_local = (kind, bi, idx, info.get("what"))
            if sink_local in ev_seen:
                # merge labels
                for e in events:
                    if e.bb == (bi, idx) and e.kind == kind and e.info.get("what") == info.get("what") and not e.via:
                        e.labels = e.labels | labels
                        return
            ev_seen.add(sink_local)
            events.append(Event(kind, None, labels, info, (bi, idx)))

        def ctrl_val(bi):
            if not pol.implicit_flows:
                return None
            ls = set()
            for sb in view.value_controlling_switches(bi):
                ls |= switch_labels.get(sb, EMPTY)
            return scalar(frozenset(ls)) if ls else None

        def transfer_block(bi, st, want_events):
            bb = blocks[bi]
            cv = ctrl_val(bi)
            cur_ctrl[0] = cv
            for si, s in enumerate(bb["stmts"]):
                if s[0] == "a":
                    place, rv = s[1], s[2]
                    val = eval_rv(st, rv, bi, si, want_events, s)
                    if cv is not None and rv[0] not in ("ref", "rawptr") and _is_constantish(val):
                        # a constant chosen under a branch (e.g. `return none`) varies with the branch condition
                        val = v_join(val, cv)
                    write_place(st, place, val, bi, si, want_events)
                elif s[0] == "sd":
                    pass
            t = bb["term"]
            k = t["k"]
            if k == "call":
                do_call(bi, st, t, want_events)
            elif k == "switch" and not want_events and pol.implicit_flows:
                v = eval_op(st, t["op"], bi, "term", False)
                nl = v_flat(v)
                switch_labels[bi] = switch_labels.get(bi, EMPTY) | nl
            elif k == "switch" and want_events:
                v = eval_op(st, t["op"], bi, "term", want_events)
                switch_labels[bi] = v_flat(v) | (switch_labels.get(bi, EMPTY) if pol.implicit_flows else EMPTY)
                emit("branch", bi, "term", v_flat(v), {"what": "switch", "span": t["s"], "macros": t["m"],
                                                        "targets": t["t"]})
            elif k == "assert" and want_events:
                v = eval_op(st, t["cond"], bi, "term", want_events)
                emit("assert", bi, "term", v_flat(v), {"what": "assert:" + t["msg"], "span": t["s"]})
            elif k == "drop":
                pass

        def eval_rv(st, rv, bi, si, want_events, stmt):
            k = rv[0]
            if k == "use":
                return eval_op(st, rv[1], bi, si, want_events)
            if k in ("ref", "rawptr"):
                return read_place(st, rv[2], want_events, bi, si)
            if k == "cfd":
                return read_place(st, rv[1], want_events, bi, si)
            if k == "cast":
                return eval_op(st, rv[2], bi, si, want_events)
            if k == "bin":
                a = eval_op(st, rv[2], bi, si, want_events)
                c = eval_op(st, rv[3], bi, si, want_events)
                if want_events and rv[1] in ("Div", "Rem"):
                    emit("divrem", bi, si, v_flat(a) | v_flat(c),
                         {"what": rv[1], "span": stmt[3], "divisor_const": rv[3][0] == "k",
                          "lhs": sorted(v_flat(a)), "rhs": sorted(v_flat(c)), "macros": stmt[4]})
                return scalar(v_flat(a) | v_flat(c))
            if k == "un":
                a = eval_op(st, rv[2], bi, si, want_events)
                if rv[1] == "PtrMetadata":
                    return scalar(v_len(a))
                return scalar(v_flat(a))
            if k == "discr":
                v = read_place(st, rv[1], want_events, bi, si)
                return scalar(v_read(v, ("#d",)) | (v.t.get((), EMPTY)) | frozenset(
                    sym_label(i, pre) for (i, pre) in v.s))
            if k == "repeat":
                return scalar(v_flat(eval_op(st, rv[1], bi, si, want_events)))
            if k == "agg":
                akind, adt, variant, ops, names = rv[1], rv[2], rv[3], rv[4], rv[5]
                vals = [eval_op(st, o, bi, si, want_events) for o in ops]
                if akind == "array":
                    out = Val()
                    for v in vals:
                        out = v_join(out, v_materialise(v))
                    return out
                out = Val()
                for j, v in enumerate(vals):
                    if akind == "adt" and j < len(names):
                        fname = names[j]
                    else:
                        fname = str(j)
                    out = v_write(out, (fname,), v, strong=False)
                if akind == "closure":
                    out = v_join(out, scalar({"closure:" + adt}))
                return out
            return Val()

        def do_call(bi, st, t, want_events):
            args = t["args"]
            argvals = [eval_op(st, a, bi, "term", want_events) for a in args]
            ids = self.callee_ids(t)
            ret = None
            writes = {}
            if want_events:
                for e in pol.call_hook(self, view, bi, t, argvals, ids) or ():
                    emit(e[0], bi, "term", e[1], e[2])
            handled = False
            if ids:
                for cid in ids:
                    cb = self.by_id[cid]
                    summ = self.summaries.get(cid)
                    if summ is None:
                        continue
                    handled = True
                    avs = argvals
                    if cb["kind"] == "Closure" and len(argvals) == 2:
                        # rust-call ABI: (env, (a, b, ...)) -> env, a, b, ...
                        tup = argvals[1]
                        avs = [argvals[0]] + [v_sub(tup, (str(j),)) for j in range(cb["argc"] - 1)]
                    r, w = self.apply_summary(summ, avs)
                    ret = v_join(ret, r)
                    for i, v in w.items():
                        writes[i] = v_join(writes.get(i), v)
                    if want_events:
                        for (kind, sink), (ls, info) in summ.events.items():
                            sl = self.subst(ls, avs)
                            keep_empty = kind in pol.keep_empty_kinds
                            if not sl and not keep_empty:
                                continue
                            re = pol.on_call_event(cid, kind, sink, sl, info, view, bi, t)
                            if re is None:
                                continue
                            sink2, info2 = re
                            sl = pol.filter_event(kind, sl, info2) if sl else sl
                            if sl or keep_empty:
                                events.append(Event(kind, sink2, frozenset(sl), info2, (bi, "term"),
                                                    via=(mir.callee_name(t),)))
            if not handled:
                m = pol.external(self, view, bi, t, argvals)
                if m is None:
                    m = self.default_external(view, t, argvals, bi, want_events, emit)
                r, w, evs = m
                ret = r
                writes = w
                if want_events:
                    for e in evs or ():
                        emit(e[0], bi, "term", e[1], e[2])
            # closures / fn items passed to a callee we did not analyse with them bound
            skip_join = getattr(self, "closures_handled", False)
            self.closures_handled = False
            for j, av in enumerate(argvals):
                if skip_join and not want_events:
                    break
                for lab in list(av.t.get((), EMPTY)):
                    if lab.startswith("closure:") or lab.startswith("fn:"):
                        cid = lab.split(":", 1)[1]
                        summ = self.summaries.get(cid)
                        if summ is None:
                            continue
                        others = Val()
                        for jj, o in enumerate(argvals):
                            if jj != j:
                                others = v_join(others, v_materialise(o))
                        others = scalar(v_flat(others)) if True else others
                        if others.t.get(LEN):
                            pass
                        cb = self.by_id[cid]
                        if lab.startswith("closure:"):
                            avs = [av] + [others] * (cb["argc"] - 1)
                        else:
                            avs = [others] * cb["argc"]
                        r, w = self.apply_summary(summ, avs)
                        if not skip_join:
                            ret = v_join(ret, scalar(v_flat(r)))
                        if want_events:
                            for (kind, sink), (ls, info) in summ.events.items():
                                sl = self.subst(ls, avs)
                                sl = pol.filter_event(kind, sl, info) if sl else sl
                                if sl:
                                    events.append(Event(kind, sink, sl, info, (bi, "term"), via=(cid,)))
            self.current_ctrl = cur_ctrl[0]
            ret = pol.post_call(self, view, bi, t, ret or Val(), argvals)
            if cur_ctrl[0] is not None and _is_constantish(ret):
                ret = v_join(ret, cur_ctrl[0])
            # apply
            for i, v in writes.items():
                if i - 1 < len(args) and args[i - 1][0] in ("c", "m"):
                    pl = args[i - 1][1]
                    tgt = (pl[0], list(pl[1]) + ["*"])
                    write_place(st, tgt, v, bi, "term", False)
            write_place(st, t["dst"], ret or Val(), bi, "term", want_events)

        # ---- fixpoint over blocks -------------------------------------------------------------
        work = [0]
        inq = {0}
        pos = {bq: i for i, bq in enumerate(order)}
        iters = 0
        while work:
            work.sort(key=lambda x: pos.get(x, 1 << 30))
            bi = work.pop(0)
            inq.discard(bi)
            iters += 1
            if iters > 40 * max(1, view.n):
                break
            st = dict(in_state[bi])
            transfer_block(bi, st, False)
            for s in view.succ[bi]:
                cur = in_state.get(s)
                if cur is None:
                    in_state[s] = st if len(view.succ[bi]) == 1 else dict(st)
                    if s not in inq:
                        work.append(s)
                        inq.add(s)
                else:
                    changed = False
                    new = None
                    for l, v in st.items():
                        c = cur.get(l)
                        if c is None:
                            if new is None:
                                new = dict(cur)
                            new[l] = v
                            changed = True
                        elif not v_leq(v, c):
                            if new is None:
                                new = dict(cur)
                            new[l] = v_join(c, v)
                            changed = True
                    if changed:
                        in_state[s] = new
                        if s not in inq:
                            work.append(s)
                            inq.add(s)
        # ---- final pass: summary + events -----------------------------------------------------
        summ = Summary()
        summ.complete = True
        ret = None
        outs = {}
        for bi in order:
            if bi not in in_state:
                continue
            st = dict(in_state[bi])
            transfer_block(bi, st, collect)
            if blocks[bi]["term"]["k"] == "ret":
                ret = v_join(ret, st.get(0) or Val())
                for i in range(1, argc + 1):
                    ty = view.locals[i]
                    if ty.startswith("&mut ") or ty.startswith("*mut ") or "&mut " in ty[:12]:
                        v = st.get(i)
                        if v is not None:
                            # what was written through the parameter: its tree minus its own identity; identities
                            # of *other* parameters stored there (e.g. `*a = *b`) are dependences and are kept
                            other = frozenset(x for x in v.s if x[0] != i)
                            ov = Val(dict(v.t), EMPTY)
                            if other:
                                ov = v_join(ov, v_materialise(Val({}, other)))
                            outs[i] = v_join(outs.get(i), ov)
        summ.ret = ret or Val()
        summ.outs = outs
        self.last_states = in_state
        if collect and pol.guarded_kinds:
            gcache = {}
            for e in events:
                if e.kind in pol.guarded_kinds and e.bb is not None and not e.info.get("cond"):
                    bi = e.bb[0]
                    g = gcache.get(bi)
                    if g is None:
                        gl = set()
                        ctrl = []
                        sw = view.immediate_controlling_switches(bi) if pol.guard_mode == "immediate" \
                            else view.controlling_switches(bi)
                        for sb in sw:
                            ls = switch_labels.get(sb, EMPTY)
                            ls = pol.filter_event("guard", ls, {}) if ls else ls
                            ctrl.append(blocks[sb]["term"]["s"])
                            if ls:
                                gl |= ls
                        g = (frozenset(gl), ctrl)
                        gcache[bi] = g
                    if g[1]:
                        e.labels = frozenset(e.labels | g[0])
                        e.info = dict(e.info, cond=True, guards=(e.info.get("guards", []) + g[1])[:6])
        if collect:
            # assign stable sink keys to local events and fold into the summary
            ords = {}
            for e in events:
                if e.sink is None:
                    what = e.info.get("what", "")
                    k0 = (e.kind, what.split(" ")[0] if e.kind != "index" else "index")
                    n = ords.get((k0, e.bb), None)
                    if n is None:
                        n = len([1 for kk in ords if kk[0] == k0])
                        ords[(k0, e.bb)] = n
                    e.sink = "%s|%s|%s" % (bid, "%s:%s" % k0, n)
                    e.info = dict(e.info, body=bid, bb=e.bb[0])
            for e in events:
                if e.kind in pol.propagate_kinds:
                    sym = frozenset(l for l in e.labels if l.startswith("@"))
                    if sym or e.kind in pol.keep_empty_kinds:
                        cur = summ.events.get((e.kind, e.sink))
                        if cur is None:
                            summ.events[(e.kind, e.sink)] = (sym, e.info)
                        else:
                            summ.events[(e.kind, e.sink)] = (cur[0] | sym, cur[1])
        return summ, events

    # ---- summary application ---------------------------------------------------------------------
    def subst(self, labels, argvals):
        out = set()
        for l in labels:
            if l[0] != "@":
                out.add(l)
                continue
            body = l[1:]
            if body.endswith("#len"):
                i = int(body[:-4])
                if 1 <= i <= len(argvals):
                    out |= v_len(argvals[i - 1])
                continue
            parts = body.split(".")
            i = int(parts[0])
            if 1 <= i <= len(argvals):
                out |= v_read(argvals[i - 1], tuple(parts[1:]))
        return frozenset(out)

    def subst_val(self, v, argvals):
        t = {}
        for p, ls in v.t.items():
            if ls:
                r = self.subst(ls, argvals)
                if r:
                    t[p] = r
        out = Val(t, EMPTY)
        for (i, pre) in v.s:
            if 1 <= i <= len(argvals):
                out = v_join(out, v_sub(argvals[i - 1], pre))
        return out

    def apply_summary(self, summ, argvals):
        ret = self.subst_val(summ.ret, argvals)
        writes = {}
        for i, v in summ.outs.items():
            writes[i] = self.subst_val(v, argvals)
        return ret, writes

    def default_external(self, view, t, argvals, bi, want_events, emit):
        """Conservative model: result depends on every argument; every &mut argument may be
        overwritten with anything derived from the arguments."""
        allf = set()
        alln = set()
        for v in argvals:
            allf |= v_flat(v)
            alln |= v_len(v)
        ret = Val({(): frozenset(allf), LEN: frozenset(alln)})
        writes = {}
        for j, a in enumerate(t["args"]):
            if a[0] in ("c", "m") and not a[1][1]:
                ty = view.locals[a[1][0]]
                if ty.startswith("&mut ") or ty.startswith("*mut "):
                    writes[j + 1] = Val({(): frozenset(allf)})
        return ret, writes, ()

    # ---- whole-program driver ------------------------------------------------------------------------
    def call_graph(self, ids):
        g = {}
        for bid in ids:
            v = self.view(bid)
            outs = set()
            for bi, t in v.calls():
                for c in self.callee_ids(t):
                    outs.add(c)
            # closures / fn items referenced
            b = v.b
            for bb in b["blocks"]:
                for s in bb["stmts"]:
                    if s[0] == "a" and s[2][0] == "agg" and s[2][1] == "closure" and s[2][2] in self.by_id:
                        outs.add(s[2][2])
            g[bid] = outs
        return g

    def sccs(self, g):
        """Tarjan, iterative; returns SCCs in reverse topological order (callees first)."""
        index = {}
        low = {}
        onstack = set()
        stack = []
        out = []
        counter = [0]
        for root in g:
            if root in index:
                continue
            work = [(root, iter(g[root]))]
            index[root] = low[root] = counter[0]
            counter[0] += 1
            stack.append(root)
            onstack.add(root)
            while work:
                v, it = work[-1]
                adv = False
                for w in it:
                    if w not in g:
                        continue
                    if w not in index:
                        index[w] = low[w] = counter[0]
                        counter[0] += 1
                        stack.append(w)
                        onstack.add(w)
                        work.append((w, iter(g[w])))
                        adv = True
                        break
                    elif w in onstack:
                        low[v] = min(low[v], index[w])
                if adv:
                    continue
                work.pop()
                if work:
                    u = work[-1][0]
                    low[u] = min(low[u], low[v])
                if low[v] == index[v]:
                    comp = []
                    while True:
                        w = stack.pop()
                        onstack.discard(w)
                        comp.append(w)
                        if w == v:
                            break
                    out.append(comp)
        return out

    def run_all(self, collect=True):
        """Analyse every fn body bottom-up; returns {body id: [Event]}."""
        ids = [b["id"] for b in self.facts.body_list
               if b["kind"] in ("Fn", "AssocFn", "Closure") and self.policy.want_body(b)]
        g = self.call_graph(ids)
        comps = self.sccs(g)
        all_events = {}
        for comp in comps:
            if len(comp) == 1 and comp[0] not in g[comp[0]]:
                summ, evs = self.analyze(comp[0], collect)
                self.summaries[comp[0]] = summ
                all_events[comp[0]] = evs
                continue
            for c in comp:
                self.summaries.setdefault(c, Summary())
            for rnd in range(12):
                changed = False
                for c in comp:
                    summ, evs = self.analyze(c, collect)
                    if not summ.leq(self.summaries[c]):
                        changed = True
                    self.summaries[c] = summ
                    all_events[c] = evs
                if not changed:
                    break
        return all_events
