"""E1 front end: run the rustc_private driver on /repo's working tree and load its facts.

Facts are cached under /verif/work/facts/<sha256 of /repo sources>/<config>.jsonl, so the
checks of one run share an extraction while any edit to /repo forces a new one.
"""
import fcntl
import hashlib
import json
import os
import shutil
import subprocess
import sys
import tempfile
import time

VERIF = os.path.dirname(os.path.dirname(os.path.abspath(__file__)))
REPO = os.environ.get("CBV_REPO", "/repo")
WORK = os.path.join(VERIF, "work")
DRIVER_DIR = os.path.join(VERIF, "driver")
DRIVER_BIN = os.path.join(DRIVER_DIR, "target", "release", "cbv-driver")

CONFIGS = {
    "all": ["--all-features"],
    "default": [],
}

MIN_BODIES = {"all": 6000, "default": 3000}


def repo_hash(repo=REPO):
    h = hashlib.sha256()
    files = []
    for root, dirs, fs in os.walk(os.path.join(repo, "src")):
        dirs.sort()
        for f in sorted(fs):
            files.append(os.path.join(root, f))
    for f in ("Cargo.toml", "Cargo.lock"):
        files.append(os.path.join(repo, f))
    for f in files:
        h.update(os.path.relpath(f, repo).encode())
        h.update(b"\0")
        try:
            with open(f, "rb") as fh:
                h.update(fh.read())
        except OSError:
            h.update(b"<missing>")
        h.update(b"\0")
    # the driver's own source is part of the key: a changed extractor invalidates old facts
    with open(os.path.join(DRIVER_DIR, "src", "main.rs"), "rb") as fh:
        h.update(fh.read())
    return h.hexdigest()[:24]


def nightly_sysroot():
    return subprocess.check_output(["rustc", "+nightly", "--print", "sysroot"], text=True).strip()


def build_driver():
    if os.path.exists(DRIVER_BIN):
        src_m = os.path.getmtime(os.path.join(DRIVER_DIR, "src", "main.rs"))
        if os.path.getmtime(DRIVER_BIN) >= src_m:
            return
    env = dict(os.environ, CARGO_NET_OFFLINE="true")
    subprocess.check_call(["cargo", "build", "--release", "--offline"], cwd=DRIVER_DIR, env=env,
                          stdout=subprocess.DEVNULL, stderr=subprocess.DEVNULL)


def extract(config, out_path, repo=REPO):
    build_driver()
    tgt = tempfile.mkdtemp(prefix="tgt-", dir=WORK)
    try:
        env = dict(os.environ)
        env.update({
            "LD_LIBRARY_PATH": nightly_sysroot() + "/lib",
            "RUSTFLAGS": "-Zmir-opt-level=0 -Awarnings",
            "RUSTC_WORKSPACE_WRAPPER": DRIVER_BIN,
            "CARGO_TARGET_DIR": tgt,
            "CARGO_NET_OFFLINE": "true",
            "CBV_OUT": out_path + ".tmp",
        })
        env.pop("RUSTC_WRAPPER", None)
        t0 = time.time()
        p = subprocess.run(["cargo", "+nightly", "check", "--offline", "--lib"] + CONFIGS[config],
                           cwd=repo, env=env, stdout=subprocess.PIPE, stderr=subprocess.STDOUT, text=True)
        if p.returncode != 0 or not os.path.exists(out_path + ".tmp"):
            sys.stderr.write(p.stdout[-4000:])
            raise RuntimeError("fact extraction failed for config %s (exit %s)" % (config, p.returncode))
        os.replace(out_path + ".tmp", out_path)
        return time.time() - t0
    finally:
        shutil.rmtree(tgt, ignore_errors=True)


def facts_path(config, repo=REPO):
    os.makedirs(os.path.join(WORK, "facts"), exist_ok=True)
    h = repo_hash(repo)
    d = os.path.join(WORK, "facts", h)
    os.makedirs(d, exist_ok=True)
    out = os.path.join(d, config + ".jsonl")
    for attempt in (0, 1):
        os.makedirs(d, exist_ok=True)
        try:
            os.utime(d)             # mark as in use (see _prune)
        except OSError:
            pass
        lock = open(os.path.join(d, config + ".lock"), "w")
        fcntl.flock(lock, fcntl.LOCK_EX)
        try:
            if not os.path.exists(out):
                try:
                    extract(config, out, repo)
                except RuntimeError:
                    # a concurrent run on another tree may have pruned this directory mid-extraction: retry once
                    if attempt == 0 and not os.path.isdir(d):
                        continue
                    raise
                _prune(os.path.join(WORK, "facts"), keep=h)
            break
        finally:
            fcntl.flock(lock, fcntl.LOCK_UN)
            lock.close()
    return out


def _prune(root, keep, max_keep=6):
    try:
        # never touch a directory used in the last half hour: concurrent runs on other trees may be extracting into
        # it or reading from it
        now = time.time()
        ds = [(os.path.getmtime(os.path.join(root, d)), d) for d in os.listdir(root) if d != keep]
        allds = sorted(ds, reverse=True)
        ds = [(m, d) for m, d in ds if now - m > 1800]
        ds.sort(reverse=True)
        for _, d in ds[max_keep:]:
            shutil.rmtree(os.path.join(root, d), ignore_errors=True)
        # hard cap on disk use (about 26 MB per tree): beyond 40 trees drop the least recently used ones even if they are
        # younger than half an hour — with 40 newer trees around, nobody is still extracting into those
        for _, d in allds[40:]:
            shutil.rmtree(os.path.join(root, d), ignore_errors=True)
    except OSError:
        pass


class Facts:
    def __init__(self, config, path):
        self.config = config
        self.path = path
        self.bodies = {}
        self.body_list = []
        self.adts = {}
        self.impls = []
        self.meta = None
        with open(path) as fh:
            for line in fh:
                r = json.loads(line)
                t = r["t"]
                if t == "body":
                    # ids may collide for closures in generic instantiations: keep first, count dup
                    if r["id"] in self.bodies:
                        k = 1
                        while "%s#dup%d" % (r["id"], k) in self.bodies:
                            k += 1
                        r["id"] = "%s#dup%d" % (r["id"], k)
                    self.bodies[r["id"]] = r
                    self.body_list.append(r)
                elif t == "adt":
                    self.adts[r["path"]] = r
                elif t == "impl":
                    self.impls.append(r)
                elif t == "meta":
                    self.meta = r
        if self.meta is None:
            raise RuntimeError("fact file %s has no meta record (truncated?)" % path)
        n = sum(1 for b in self.body_list)
        if n < MIN_BODIES[config]:
            raise RuntimeError("fact file %s has only %d bodies (< floor %d)" % (path, n, MIN_BODIES[config]))

    def fn_bodies(self):
        return [b for b in self.body_list if b["kind"] in ("Fn", "AssocFn", "Closure")]


_cache = {}


def load(config, repo=REPO):
    key = (config, repo)
    if key not in _cache:
        _cache[key] = Facts(config, facts_path(config, repo))
    return _cache[key]
